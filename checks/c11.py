"""C11 - copies handed out are equal to, and independent of, the original."""
from simkit.gen import Profile
from simkit.monitors import mon_copy
from simkit import sessioncheck

PROPERTY = "C11"
ENGINE = "session"
LEVEL = "exploration"
BUDGET = {"quick": (80000, 60), "thorough": (2000000, 540)}
RULE = ("seeded histories: build a small document, clone / export_leaf any node with all flag "
        "combinations, take p.values and hold lists passed as values=, then edit copy and original "
        "alternately (values incl. nested n-tuple lists, renames, structure, cardinalities, merge). "
        "post-conditions at the copy op and the frame condition after every op. distinct = distinct "
        "universe shapes reached after a copy op or an edit of a copy / alias")
COMPONENTS = sessioncheck.COMPONENTS
TECHNIQUE = ("SESSION: seeded histories of copy operations followed by edits on either side; "
             "frame-condition monitor (everything outside the op's footprint snapshot-identical); history "
             "differential in both directions (replay without the edits of one side, the other side ends up the same); "
             "behavioural probe at the end of a run (the same calls on an untouched original and its copy)")
LEVEL_TEXT = ("Seeded exploration: every copy operation is checked for detachment, equality (library == "
              "and snapshot modulo ids), disjointness by identity down to nested value lists, id "
              "freshness or identity, and export_leaf shape against the harness' own construction; the "
              "frame monitor then detects shared mutable state during arbitrary later edits without "
              "having to know which container is shared. Delayed effects (state that only matters to a later "
              "operation) are found by replaying the history without the pure edits of the copies, and "
              "without the pure edits of the originals made after the last copy, and comparing the other side.")
LEVEL_NOTE = ("each op declares the roots it may change (its footprint); the source of a merge is outside "
              "the footprint; histories and universe bounded; TemplateHandler.clone_section is "
              "Section.clone on a loaded document and is exercised through clone.")
DESIGN_REF = "DESIGN.md 4 (C11)"
ASSUMPTIONS = ["footprint of a structural op = the whole trees of its target and arguments"]

PROFILES = {
    "c11-copies": Profile("c11-copies", {
        "new_doc": 3, "new_sec": 10, "new_prop": 10, "create_section": 4, "create_property": 5,
        "clone": 16, "clone_twice": 4, "linked_copy": 6, "export_leaf": 8, "template_clone": 9, "save": 6, "get_values": 8, "alias_mutate": 10, "hold_values": 4,
        "set_values": 6, "v_item_mutate": 6, "v_append": 4, "v_extend": 3, "v_setitem": 4, "v_remove": 2, "set_dtype": 2,
        "rename": 5, "set_attr": 4, "append": 5, "insert": 2, "remove": 3, "set_parent": 3,
        "setitem": 2, "set_card": 4, "merge": 4, "set_link": 2, "clean": 1, "new_id": 1, "reseed": 2,
    }, fault_share=0.15, dtypes=["string", "int", "float", "2-tuple", "3-tuple", "date", "boolean"]),
}
# a second profile in which resolved links and their copies dominate (a third of the runs)
PROFILES["c11-linked"] = Profile("c11-linked", {
    "linked_copy": 40, "clone": 6, "clean": 6, "finalize": 2, "set_values": 4, "rename": 3,
    "set_attr": 3, "create_property": 3, "new_sec": 2, "export_leaf": 3, "clone_twice": 2,
    # a Section merged with a Section of another tree: an included file saved earlier in the run
    "save": 3, "set_include": 5,
}, fault_share=0.1, length=(6, 16))
PROFILES["c11-copies-2"] = PROFILES["c11-copies"]      # keeps the general profile at two thirds
MONITORS = [mon_copy]

# ops that edit their target and create no object (and draw no uuid): leaving them out of a replay
# keeps every later object reference and id in place
PURE_EDITS = ("set_values", "set_dtype", "v_append", "v_extend", "v_insert", "v_setitem", "v_remove",
              "v_remove_at", "v_item_mutate", "reassign_values", "rename", "set_attr", "set_card",
              "set_card2", "reorder", "clean")
COPY_OPS = ("clone", "export_leaf", "template_clone", "clone_twice")


import re as _re
_UUID = _re.compile(r"[0-9a-f]{8}-[0-9a-f]{4}-[0-9a-f]{4}-[0-9a-f]{4}-[0-9a-f]{12}"
                   r"|[^\"' ]*odml-verif-[0-9]+-[0-9]+")        # ids, and the per-run sandbox path


def differential(res, replay):
    """'No edit of a copy ever changes the original, and vice versa' also in its delayed form.
    (a) replay the history without the operations that only edited copy-derived trees: every
    object outside those trees must end up exactly as in the full run;  (b) replay it without the
    operations that, after the last copy was made, only edited objects outside the copy-derived
    trees: every object inside them must end up exactly as in the full run."""
    from simkit.monitors import subtree_indices
    info = res.extra.get("steps_info") or []
    snaps = [s_ for s_ in (res.extra.get("snapshots") or []) if s_ is not None]
    if not info or len(snaps) != len(info):
        return
    derived = set()        # registry indices of objects that belong to copies
    saved_by = set()       # sides (True: a copy, False: an original) that have written a file
    edits_of_copies = set()
    edits_of_originals = set()
    for k, st in enumerate(info):
        post = snaps[k]
        args = set(st["arg_idx"])
        if st["op"] in COPY_OPS and st["outcome"] == "ret":
            for key in ("new", "again"):
                if st.get(key) is not None and st[key] < len(post["objs"]):
                    derived.update(subtree_indices(post, st[key]))
            edits_of_originals.clear()      # (b) is about edits made after the last copy
            continue
        if args & derived and not args <= derived:
            return          # a copy and an original meet in one operation: no longer independent
        # ... or through the store: one side saves a file, the other side includes / loads it
        if st["op"] == "save" and args:
            saved_by.add(bool(args <= derived))
        if st["op"] in ("set_include", "load", "template_clone", "restart", "damage_file") and saved_by:
            return          # (which file is read is not tracked: any file written before counts)
        if args & derived and st["op"] in ("get_values", "save"):
            return          # content of a copy leaves it through the harness (a held list, a file)
        if derived and st["op"] == "get_values":
            return          # ... or content of an original: the held list may be given to a copy
        if args and args <= derived:
            derived.update(range(st["n_pre"], len(post["objs"])))     # what the op created
            if st["op"] in PURE_EDITS and st["outcome"] == "ret":
                edits_of_copies.add(st["step"])
        elif args and derived and st["op"] in PURE_EDITS and st["outcome"] == "ret":
            edits_of_originals.add(st["step"])
    if not edits_of_copies and not edits_of_originals:
        return
    # an op that quotes an id of this run (a name chosen to equal an existing id) means something
    # else in a replay whose ids come out differently: such histories are not compared
    import json as _json
    _text = _json.dumps(res.case["ops"], default=repr)
    if any(m != "5b6a1b40-2bd4-4a12-8f3c-0a1b2c3d4e5f" and "odml-verif" not in m
           for m in _UUID.findall(_text)):
        return          # (the generator's one fixed id is the same text in every run)
    if edits_of_copies:
        _compare(res, replay, snaps, edits_of_copies, lambda i: i not in derived,
                 "the edits of copies")
    if edits_of_originals and res.violation is None:
        _compare(res, replay, snaps, edits_of_originals, lambda i: i in derived,
                 "the edits of originals made after the last copy")


def _compare(res, replay, snaps, leave_out, judged, what):
    import json as _json
    from simkit.session import signature
    res.stats["differential_replays"] = res.stats.get("differential_replays", 0) + 1
    other = replay(res.case, leave_out)
    # the two runs must have registered the same objects at every step they share: if an op
    # resolved or ended differently (a name that is free in one run and taken in the other), the
    # object numbering diverges and there is nothing to compare
    all_a = res.extra.get("snapshots") or []
    all_b = other.extra.get("snapshots") or []
    if len(all_a) != len(all_b):
        return
    for sa, sb in zip(all_a, all_b):
        if sa is not None and sb is not None and len(sa["objs"]) != len(sb["objs"]):
            return
    final_a = snaps[-1]
    snaps_b = [s_ for s_ in all_b if s_ is not None]
    if not snaps_b:
        return
    final_b = snaps_b[-1]
    if len(final_a["objs"]) != len(final_b["objs"]):
        return      # the registries diverged (an op resolved differently): nothing to compare

    def no_ids(rec):
        # ids come from one seeded stream: leaving out an op that draws from it shifts the ids
        # of everything created later; the comparison is about content
        out = dict(rec)
        out.pop("id", None)
        return _json.loads(_UUID.sub("<uuid>", _json.dumps(out, sort_keys=True, default=repr)))
    for i, (ra, rb) in enumerate(zip(final_a["objs"], final_b["objs"])):
        if not judged(i):
            continue
        ra, rb = no_ids(ra), no_ids(rb)
        if ra != rb:
            keys = [k_ for k_ in sorted(set(ra) | set(rb)) if ra.get(k_) != rb.get(k_)]
            steps = sorted(leave_out)
            res.violation = {
                "monitor": "copy.delayed-independence", "step": len(res.case["ops"]),
                "op": {"op": "differential"}, "labels": [], "outcome": ["ret"],
                "message": "obj#%d ends up different in %r when %s (steps %r) are "
                           "left out of the history: %r vs %r" % (i, keys, what, steps[:6],
                                                                  ra.get(keys[0]), rb.get(keys[0])),
                "signature": signature("copy.delayed-independence", "differential", [])}
            return


def finale(U, interp, env, mem, res):
    """'Equal to the original' also means: behaves like it.  The run is over, so the harness may
    use the objects up: for every whole-tree copy (clone of a Document or of a parentless
    Section, children included) that is still snapshot-equal to its original, the same calls -
    clean(), and for Documents finalize() then clean() - are made on both; after each call the
    two trees must still be equal (ids ignored) and must have answered alike."""
    from simkit.monitors import nested, subtree_indices
    from simkit.universe import kind_of
    info = res.extra.get("steps_info") or []
    pairs = []
    for st in info:
        if st["op"] != "clone" or st["outcome"] != "ret" or st.get("new") is None:
            continue
        op = res.case["ops"][st["step"]]
        if not op.get("children", True) or len(st["arg_idx"]) != 1:
            continue
        pairs.append((st["arg_idx"][0], st["new"], st["step"]))
    if not pairs:
        return None
    last = U.snapshot()
    probed = 0
    for ix, ic, at in pairs[-3:]:
        if ix >= len(U.objs) or ic >= len(U.objs):
            continue
        # original and copy as the copy op left them: no later op was given one of their objects
        mine = set(subtree_indices(last, ix)) | set(subtree_indices(last, ic))
        if any(st["step"] > at and mine & set(st["arg_idx"]) for st in info):
            continue
        orig, copy = U.objs[ix], U.objs[ic]
        if kind_of(orig) not in ("doc", "sec") or kind_of(orig) != kind_of(copy):
            continue
        if any(kind_of(o) == "sec" and o.parent is not None for o in (orig, copy)):
            continue
        if U.links_cyclic(orig) if kind_of(orig) == "doc" else False:
            continue
        calls = [["clean"]] if kind_of(orig) == "sec" else [["clean"], ["finalize", "clean"]]
        for seq in calls:
            snap = U.snapshot()
            if nested(snap, ix, with_ids=False) != nested(snap, ic, with_ids=False):
                break           # edited apart since the copy was made: nothing to compare
            flags = [[snap["objs"][i].get("merged") for i in subtree_indices(snap, top)]
                     for top in (ix, ic)]
            if flags[0] != flags[1]:
                break           # one side was merged (or cleaned) since: no longer the same state
            for call in seq:
                answers = []
                for obj in (orig, copy):
                    env.fuel[0] = 1000
                    try:
                        getattr(obj, call)()
                        answers.append("returned")
                    except Exception as exc:
                        answers.append(type(exc).__name__)
                    finally:
                        env.fuel[0] = None
                U.rediscover()
                snap = U.snapshot()
                probed += 1
                if answers[0] != answers[1]:
                    return ("copy.behaves-equal", "%s() on the original %s, on its equal copy %s" %
                            (call, answers[0], answers[1]))
                a, b = nested(snap, ix, with_ids=False), nested(snap, ic, with_ids=False)
                if a != b:
                    keys = [k for k in sorted(set(a) | set(b)) if a.get(k) != b.get(k)]
                    return ("copy.behaves-equal", "after %s() on both, the copy (obj#%d) is no longer "
                            "equal to its original (obj#%d): they differ in %r" %
                            ("(), ".join(seq[:seq.index(call) + 1]), ic, ix, keys))
    res.stats["behaviour_probes"] = res.stats.get("behaviour_probes", 0) + probed
    return None


explore, execute = sessioncheck.make(PROFILES, MONITORS, PROPERTY, differential=differential,
                                     finale=finale)
