"""C11 - copies handed out are equal to, and independent of, the original."""
from simkit.gen import Profile
from simkit.monitors import mon_copy
from simkit import sessioncheck

PROPERTY = "C11"
ENGINE = "session"
LEVEL = "exploration"
BUDGET = {"quick": (80000, 60), "thorough": (2000000, 540)}
RULE = ("seeded histories: build a small document, clone / export_leaf any node with all flag "
        "combinations, take p.values and hold lists passed as values=, then edit copy and original "
        "alternately (values incl. nested n-tuple lists, renames, structure, cardinalities, merge). "
        "post-conditions at the copy op and the frame condition after every op. distinct = distinct "
        "universe shapes reached after a copy op or an edit of a copy / alias")
COMPONENTS = sessioncheck.COMPONENTS
TECHNIQUE = ("SESSION: seeded histories of copy operations followed by edits on either side; "
             "frame-condition monitor (everything outside the op's footprint snapshot-identical)")
LEVEL_TEXT = ("Seeded exploration: every copy operation is checked for detachment, equality (library == "
              "and snapshot modulo ids), disjointness by identity down to nested value lists, id "
              "freshness or identity, and export_leaf shape against the harness' own construction; the "
              "frame monitor then detects shared mutable state during arbitrary later edits without "
              "having to know which container is shared.")
LEVEL_NOTE = ("each op declares the roots it may change (its footprint); the source of a merge is outside "
              "the footprint; histories and universe bounded; TemplateHandler.clone_section is "
              "Section.clone on a loaded document and is exercised through clone.")
DESIGN_REF = "DESIGN.md 4 (C11)"
ASSUMPTIONS = ["footprint of a structural op = the whole trees of its target and arguments"]

PROFILES = {
    "c11-copies": Profile("c11-copies", {
        "new_doc": 3, "new_sec": 10, "new_prop": 10, "create_section": 4, "create_property": 5,
        "clone": 16, "clone_twice": 4, "export_leaf": 8, "template_clone": 5, "save": 4, "get_values": 8, "alias_mutate": 10, "hold_values": 4,
        "set_values": 6, "v_item_mutate": 6, "v_append": 4, "v_extend": 3, "v_setitem": 4, "v_remove": 2, "set_dtype": 2,
        "rename": 5, "set_attr": 4, "append": 5, "insert": 2, "remove": 3, "set_parent": 3,
        "setitem": 2, "set_card": 4, "merge": 4, "set_link": 2, "clean": 1, "new_id": 1,
    }, fault_share=0.15, dtypes=["string", "int", "float", "2-tuple", "3-tuple", "date", "boolean"]),
}
MONITORS = [mon_copy]

explore, execute = sessioncheck.make(PROFILES, MONITORS, PROPERTY)
