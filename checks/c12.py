"""C12 - resolving links and includes only adds copies; cleaning restores the document."""
import copy
import os

from simkit import seams, seeds, sessioncheck
from simkit.monitors import nested, subtree_indices
from simkit.session import Result, jdump, signature
from simkit.universe import Universe, kind_of

PROPERTY = "C12"
ENGINE = "session"
LEVEL = "exploration"
BUDGET = {"quick": (30000, 60), "thorough": (600000, 540)}
RULE = ("seeded documents (3-12 Sections, depth <= 4) with 1-3 linking Sections constrained as the "
        "quantifier says (target no relative of the linker, no target is/contains/lies inside a "
        "linker), links absolute or relative, includes as file: URL#path of a second generated file; "
        "own children of other names (restoration profile) or of the same names with same/other "
        "type, names with case variants, repositories; scripts of finalize / clean / repeated cycles / "
        "restart through XML / save-after-clean / target gains children / target renamed and replaced; judged against an independent resolver model. distinct = distinct (document shape, "
        "link layout, script) hashes")
COMPONENTS = dict(sessioncheck.COMPONENTS)
COMPONENTS["real"] = COMPONENTS["real"] + ["odml.terminology (cache in the sandbox)",
                                           "urllib on file: URLs"]
TECHNIQUE = ("SESSION: seeded link/include documents and finalize/clean/restart scripts checked "
             "step by step against an independent resolver model (refinement of a reference model)")
LEVEL_TEXT = ("Seeded exploration over documents and finalize/clean/restart histories; after every "
              "step the document snapshot is compared with what a small independent resolver (own path "
              "walker, 'copy every child whose name the linker does not use') predicts: linker children "
              "= own + copies, target and everything outside linker subtrees untouched, clean restores "
              "the snapshot ids included, the stored reference still designates the same target, the "
              "saved file holds the reference and none of the referenced content, cycles are idempotent.")
LEVEL_NOTE = ("includes run with the loader thread executed inside start() (a legal schedule); the text "
              "of a link is compared by what it designates (clean rewrites ../../T to /T); restarts "
              "are placed at unresolved points only and re-base the expectation on the reloaded "
              "document (round-trip fidelity is C01's).")
DESIGN_REF = "DESIGN.md 4 (C12)"
ASSUMPTIONS = ["generator constrained to the quantifier: no chained or nested links"]

# "A"/"a": names that differ in case only are different names
NAMES = ["a", "b", "c", "d", "e", "A", "B", "a!", "a%21"]     # ("%21" is text, not an escape)
REPOS = [None, None, None, "file:///nowhere/term_a.xml", "file:///nowhere/term_b.xml"]
TYPES = ["t1", "t2", "T3", "hardware/Electrode"]      # types are free text: case and "/" included


# ---------------------------------------------------------------------------- generation
def gen_tree(rng, n_secs, depth_max):
    """Random tree spec: list of nodes {name,type,props,secs}; returns root list."""
    counter = [0]

    def node(depth):
        counter[0] += 1
        nd = {"name": None, "type": rng.choice(TYPES), "props": [], "secs": [],
              # stored through the constructor, as a reader does: nothing is fetched
              "repository": rng.choice(REPOS),
              "definition": rng.choice([None, None, "definition of a section"]),
              "reference": rng.choice([None, None, None, "ref-1"])}
        if rng.random() < 0.1:
            # a Section that declares how many children it should have: cardinalities are
            # reported, never enforced - resolving a link copies every child all the same
            nd["sec_card"] = rng.choice([None, [None, rng.choice([0, 1, 2])]])
            nd["prop_card"] = rng.choice([None, [None, rng.choice([0, 1, 2])], [0, 1]])
        for k in range(rng.choice([0, 0, 1, 2])):
            # now and then a Property is named like Sections are: a Section and a Property of one
            # name under one parent are different children
            pname = "p%d" % k if rng.random() < 0.8 else rng.choice(NAMES)
            if any(p["name"] == pname for p in nd["props"]):
                continue
            nd["props"].append({"name": pname, "values": rng.choice([1, [1, 2], "x", ["a", "b"], 2.5]),
                                "unit": rng.choice([None, None, "mV"])})
            if rng.random() < 0.008 and not any(p["name"] == "ch0" for p in nd["props"]):
                # a Section with more children than any small-number shortcut covers
                for extra in range(260):
                    nd["props"].append({"name": "ch%d" % extra, "values": extra, "unit": None})
            if rng.random() < 0.12:
                # an n-tuple Property (its stored values are lists)
                nd["props"][-1].update({"values": ["(1024;768)"], "dtype": "2-tuple"})
        return nd

    roots = []
    all_nodes = []   # (node, depth, siblings list)
    while counter[0] < n_secs:
        if not all_nodes or rng.random() < 0.3:
            sibs, depth = roots, 1
        else:
            par, pd, _ = rng.choice(all_nodes)
            if pd >= depth_max:
                continue
            sibs, depth = par["secs"], pd + 1
        free = [n for n in NAMES if not any(s["name"] == n for s in sibs)]
        if not free:
            continue
        nd = node(depth)
        nd["name"] = rng.choice(free)
        if rng.random() < 0.12:
            # a Section created without a name: it is named by its id (fixed here, so that paths
            # can be written down); the name is content, a copy keeps it and gets a fresh id
            nd["name"] = "0000%04x-0000-4000-8000-%012x" % (counter[0], counter[0])
            nd["unnamed"] = True
        sibs.append(nd)
        all_nodes.append((nd, depth, sibs))
    return roots


def paths_of(roots):
    """[(path tuple, node)] for every node, preorder."""
    out = []

    def walk(nd, pre):
        here = pre + (nd["name"],)
        out.append((here, nd))
        for ch in nd["secs"]:
            walk(ch, here)
    for r in roots:
        walk(r, ())
    return out


def related(p, q):
    n = min(len(p), len(q))
    return p[:n] == q[:n]


def rel_path(src, dst):
    """Relative path from the Section at src to the Section at dst (path tuples)."""
    k = 0
    while k < min(len(src), len(dst)) and src[k] == dst[k]:
        k += 1
    ups = len(src) - k
    return "/".join([".."] * ups + list(dst[k:]))


def generate(run_seed):
    st = seeds.Streams(run_seed)
    rng = st.get("gen")
    profile = rng.choice(["restore", "restore", "same-names"])
    main = gen_tree(rng, rng.randint(3, 10), 4)
    inc = gen_tree(rng, rng.randint(1, 5), 3)
    nodes = paths_of(main)
    links = []
    n_links = rng.randint(1, 3)
    taken = []      # paths of linkers and targets chosen so far
    for _ in range(n_links * 6):
        if len(links) >= n_links:
            break
        lp, lnode = rng.choice(nodes)
        if any(related(lp, t) for t in taken):
            continue
        use_include = rng.random() < 0.3
        if use_include:
            inodes = paths_of(inc)
            tp, tnode = rng.choice(inodes)
            ref = {"include": "/" + "/".join(tp)}
        else:
            cands = [(p, n) for p, n in nodes if not related(p, lp) and
                     not any(related(p, t) for t in taken if t not in [l["target"] for l in links
                                                                         if "link" in l])]
            # targets may be shared between linkers, but must not be related to any linker
            cands = [(p, n) for p, n in cands if not any(related(p, l["linker"]) for l in links)]
            if not cands:
                continue
            tp, tnode = rng.choice(cands)
            if any(related(tp, l["linker"]) for l in links) or related(tp, lp):
                continue
            if any(related(lp, l["target"]) for l in links if "link" in l):
                continue
            style = rng.choice(["abs", "rel", "rel", "rel-dot"])
            ref = {"link": "/" + "/".join(tp) if style == "abs" else
                   ("./" if style == "rel-dot" else "") + rel_path(lp, tp)}
        # own children of the linker: make names disjoint from / overlapping with the target's
        tnames_s = [c["name"] for c in tnode["secs"]]
        tnames_p = [c["name"] for c in tnode["props"]]
        if lnode["secs"] and profile == "restore":
            continue     # keep it simple: linkers are leaves apart from the children added here
        lnode["secs"] = []
        lnode["props"] = []
        if profile == "restore":
            for k in range(rng.choice([0, 1, 2])):
                lnode["secs"].append({"name": "own%d" % k, "type": "t1", "props": [], "secs": []})
            for k in range(rng.choice([0, 1, 2])):
                lnode["props"].append({"name": "q%d" % k, "values": k, "unit": None})
        else:
            for nm in tnames_s:
                if rng.random() < 0.6:
                    tt = [c["type"] for c in tnode["secs"] if c["name"] == nm][0]
                    lnode["secs"].append({"name": nm, "type": tt if rng.random() < 0.5 else "other",
                                          "props": [], "secs": []})
            for nm in tnames_p:
                if rng.random() < 0.6:
                    # same name, values of the same kind: convertibility conflicts between
                    # same-named Properties are merge semantics (C13), not this property
                    tv = [c["values"] for c in tnode["props"] if c["name"] == nm][0]
                    first = tv[0] if isinstance(tv, list) else tv
                    own_v = {int: 7, float: 7.5, str: "own"}[type(first)]
                    # the namesake may differ in a describing attribute: links are resolved
                    # leniently (merge with strict=False), all the way down
                    lnode["props"].append({"name": nm, "values": own_v,
                                           "unit": rng.choice([None, None, "kOhm"])})
                    tdt = [c.get("dtype") for c in tnode["props"] if c["name"] == nm][0]
                    if tdt:
                        lnode["props"][-1].update({"values": ["(1;2)"], "dtype": tdt})
            lnode["secs"].append({"name": "own", "type": "t1", "props": [], "secs": []})
        # refresh the node table: the linker's old children are gone
        nodes = paths_of(main)
        ent = {"linker": list(lp), "target": list(tp)}
        ent.update(ref)
        links.append(ent)
        if profile == "restore" and "link" in ref and lnode["secs"] and rng.random() < 0.25:
            # a linking Section of its own below this one: an own child that carries an include
            inodes = paths_of(inc)
            ip, _ = rng.choice(inodes)
            links.append({"linker": list(lp) + [lnode["secs"][0]["name"]], "target": list(ip),
                          "include": "/" + "/".join(ip), "nested": True})
        taken.append(lp)
        if "link" in ref:
            taken.append(tp)
    # script
    script = []
    if rng.random() < 0.25:
        script.append("restart")
    if any("include" in l for l in links) and rng.random() < 0.4:
        # the included file is not there yet: finalize fails, the file appears, everything works
        script.append("finalize_include_missing")
    frng = seeds.Streams(run_seed).get("cache-fault")
    if any("include" in l for l in links) and frng.random() < 0.3:
        script.append("finalize_cache_unusable")
    script.append("finalize")
    for _ in range(rng.randint(1, 6)):
        script.append(rng.choice(["clean", "finalize", "clean", "save_check", "restart", "cycle",
                                  "grow_target", "finalize", "rename_target"]))
    return {"format": 1, "engine": "links", "property": PROPERTY, "run_seed": run_seed,
            "profile": profile, "main": main, "inc": inc, "links": links, "script": script,
            "doc_repo": rng.choice(REPOS), "inc_repo": rng.choice(REPOS)}


# ---------------------------------------------------------------------------- execution
def build(odml, roots, parent):
    for nd in roots:
        sec = odml.Section(name=None if nd.get("unnamed") else nd["name"],
                           oid=nd["name"] if nd.get("unnamed") else None,
                           type=nd["type"], parent=parent,
                           repository=nd.get("repository"), definition=nd.get("definition"),
                           reference=nd.get("reference"))
        for p in nd["props"]:
            odml.Property(name=p["name"], values=p["values"], unit=p.get("unit"), parent=sec,
                          dtype=p.get("dtype"))
        build(odml, nd["secs"], sec)
        if nd.get("sec_card"):
            sec.sec_cardinality = tuple(nd["sec_card"])
        if nd.get("prop_card"):
            sec.prop_cardinality = tuple(nd["prop_card"])


def find(container, path):
    cur = container
    for name in path:
        nxt = None
        for s in cur.sections:
            if s.name == name:
                nxt = s
        if nxt is None:
            return None
        cur = nxt
    return cur


def model_walk(doc, linker, ref):
    """The model's own path walker: absolute from doc, relative from the linker."""
    if ref.startswith("/"):
        return find(doc, [p for p in ref[1:].split("/") if p])
    cur = linker
    for part in ref.split("/"):
        if part == "..":
            cur = cur.parent
        elif part in (".", ""):
            continue
        else:
            cur = find(cur, [part])
        if cur is None:
            return None
    return cur


def viol(monitor, msg, step, opname, labels=()):
    return {"monitor": monitor, "message": msg, "step": step, "op": {"op": opname},
            "labels": list(labels), "outcome": ["ret"],
            "signature": signature(monitor, opname, list(labels))}


def path_of(obj):
    out = []
    cur = obj
    for _ in range(60):
        if kind_of(cur) == "doc" or cur is None:
            break
        out.insert(0, cur.name)
        cur = cur.parent
    return out


class World(object):
    """The document under test, the included document and the harness' view of them."""

    def __init__(self, doc, inc_doc, case):
        self.doc = doc
        self.inc_doc = inc_doc
        self.case = case
        self.U = Universe()

    def linkers(self):
        """[(linker, target, kind)] for every Section that currently carries a reference."""
        out = []
        for ent in self.case["links"]:
            lk = find(self.doc, ent["linker"])
            if lk is None:
                continue
            if lk.link is not None:
                out.append((lk, model_walk(self.doc, lk, lk.link), "link"))
            elif lk.include is not None:
                out.append((lk, find(self.inc_doc, [p for p in ent["include"][1:].split("/") if p]),
                            "include"))
        return out

    def linkers_of(self, base_targets):
        """[(linker, target object, kind)] with the targets fixed by identity (not by path text)."""
        tmap = dict((id(lk), tgt) for lk, tgt in base_targets)
        return [(lk, tmap.get(id(lk), tgt), kind) for lk, tgt, kind in self.linkers()]

    def tree(self, obj, with_ids=True, cut=(), designate=True, depth=0):
        """Nested canonical tree of obj taken through the public getters.  cut: objects whose
        children are left out; designate: a link is represented by the path of the Section it
        resolves to (clean legitimately rewrites ../../T to /T)."""
        rec = self.U.record(obj)
        out = {k: v for k, v in rec.items() if k not in ("parent", "secs", "props")}
        if not with_ids:
            out.pop("id", None)
        if designate and out.get("link") is not None:
            tgt = model_walk(self.doc, obj, obj.link)
            out["link"] = ["designates", path_of(tgt) if tgt is not None else None]
        if any(obj is c for c in cut) or depth > 50:
            out["cut"] = True
            out.pop("merged", None)
            # a linking Section that has no definition / reference of its own shows the one of
            # its target while it is resolved (part of what the reference brings in; whether
            # clean takes it away again is judged by the restoration law)
            out.pop("definition", None)
            out.pop("reference", None)
            return out
        if kind_of(obj) in ("doc", "sec"):
            out["secs"] = [self.tree(s, with_ids, cut, designate, depth + 1) for s in obj.sections]
        if kind_of(obj) == "sec":
            out["props"] = [self.tree(p, with_ids, cut, designate, depth + 1) for p in obj.properties]
        return out


def run_case(case):
    import odml
    res = Result(case)
    streams = seeds.Streams(case["run_seed"])
    restore = case["profile"] == "restore"
    labels = [case["profile"]] + sorted(set("include" if "include" in e else "link"
                                            for e in case["links"]))
    with seams.installed(streams) as env:
        inc_doc = odml.Document(repository=case.get("inc_repo"))
        build(odml, case["inc"], inc_doc)
        inc_path = os.path.join(env.sandbox, "inc0.xml")
        odml.save(inc_doc, inc_path, "xml")
        inc_url = "file://" + inc_path
        doc = odml.Document(author="c12", repository=case.get("doc_repo"))
        build(odml, case["main"], doc)
        for ent in case["links"]:
            linker = find(doc, ent["linker"])
            if linker is None:
                continue
            # store the reference without resolving it: what a reader does (Section(link=...))
            own_s = [(s.name, s.type) for s in linker.sections]
            if "link" in ent:
                if model_walk(doc, linker, ent["link"]) is None:
                    continue
                ref = {"link": ent["link"]}
            else:
                ref = {"include": inc_url + "#" + ent["include"]}
            par = linker.parent
            idx = [i for i, s in enumerate(par.sections) if s is linker][0]
            new = odml.Section(name=linker.name, type=linker.type, oid=linker.id,
                               repository=linker.repository, definition=linker.definition,
                               reference=linker.reference,
                               sec_cardinality=linker.sec_cardinality,
                               prop_cardinality=linker.prop_cardinality, **ref)
            for ch in list(linker.sections) + list(linker.properties):
                new.append(ch)
            par.sections[idx] = new
        W = World(doc, inc_doc, case)

        def note(step, op):
            text = jdump(W.tree(W.doc, designate=False)).replace(env.sandbox, "$SANDBOX")
            res.log.append(jdump({"step": step, "op": op, "state": seeds.H(text)}))

        base = W.tree(doc)                                   # unresolved state, ids included
        base_targets = [(lk, tgt) for lk, tgt, _ in W.linkers()]

        def own_table():
            """linker id -> ids of the children it holds itself (taken in an unresolved state)."""
            return dict((lk.id, set(c.id for c in list(lk.sections) + list(lk.properties)))
                        for lk, _, _ in W.linkers())
        own_ids = own_table()
        resolved = False
        edited = False          # the target side was edited since the last unresolved base
        n_edit = 0
        for step, op in enumerate(case["script"]):
            res.stats["steps"] += 1
            res.count("ops", op)
            lks = W.linkers()
            pre_outside = W.tree(W.doc, cut=[lk for lk, _, _ in lks])
            lk_objs = [lk for lk, _, _ in lks]
            W.cut_inside = lk_objs        # an own child that is a linker itself is judged on its own
            pre_own = [(lk, [W.tree(s, cut=lk_objs) for s in lk.sections
                             if s.id in own_ids.get(lk.id, ())],
                        [W.tree(p) for p in lk.properties if p.id in own_ids.get(lk.id, ())])
                       for lk, _, _ in lks]
            vio = None
            try:
                if op == "finalize":
                    W.doc.finalize()
                    # every finalize, also a repeated one after the target has gained children
                    vio = check_finalized(W, lks, pre_outside, pre_own, restore)
                    resolved = True
                elif op == "clean":
                    W.doc.clean()
                    resolved = False
                    if restore and not edited:
                        vio = check_restored(W, base, base_targets)
                    elif restore:
                        vio = check_cleaned_after_edit(W, lks, pre_outside, pre_own, base_targets)
                    if vio is None and edited:
                        base = W.tree(W.doc)
                        edited = False
                elif op == "finalize_include_missing":
                    if not resolved and os.path.exists(inc_path):
                        hidden = inc_path + ".hidden"
                        os.rename(inc_path, hidden)
                        try:
                            try:
                                W.doc.finalize()
                            except Exception:
                                pass            # an include that cannot be fetched is refused (C06)
                            W.doc.clean()
                        finally:
                            os.rename(hidden, inc_path)
                        # links that were resolved before the include failed are unresolved again;
                        # nothing of the failed attempt may stand in the way of the next finalize
                        base = W.tree(W.doc)
                elif op == "finalize_cache_unusable":
                    # a fault at the download cache: a plain file sits where the cache directory
                    # should be while finalize runs; once it is gone nothing of the failed attempt
                    # may stand in the way of the next finalize (a loader that died, a table entry)
                    if not resolved:
                        import tempfile
                        cache = os.path.join(tempfile.gettempdir(), "odml.cache")
                        aside = cache + ".aside"
                        if os.path.isdir(cache):
                            os.rename(cache, aside)
                        if not os.path.exists(cache):
                            with open(cache, "w") as fobj:
                                fobj.write("not a directory")
                            try:
                                try:
                                    W.doc.finalize()
                                except Exception:
                                    pass
                                W.doc.clean()
                            finally:
                                os.remove(cache)
                                if os.path.isdir(aside):
                                    os.rename(aside, cache)
                            base = W.tree(W.doc)
                elif op == "grow_target":
                    picks = [(lk, tgt) for lk, tgt, kind in lks if kind == "link" and tgt is not None]
                    if picks:
                        lk, tgt = picks[step % len(picks)]
                        n_edit += 1
                        odml.Property(name="g%d" % n_edit, values=n_edit, parent=tgt)
                        if step % 2:
                            odml.Section(name="gs%d" % n_edit, type="t1", parent=tgt)
                        if resolved:
                            edited = True
                        else:
                            base = W.tree(W.doc)
                elif op == "rename_target":
                    picks = [(lk, tgt) for lk, tgt, kind in lks if kind == "link" and tgt is not None]
                    if picks and resolved and restore:
                        lk, tgt = picks[step % len(picks)]
                        n_edit += 1
                        old_name, par = tgt.name, tgt.parent
                        tgt.name = "r%d" % n_edit
                        newcomer = odml.Section(name=old_name, type=tgt.type, parent=par)
                        odml.Property(name="newcomer", values=n_edit, parent=newcomer)
                        # clean right away: a finalize in between would legitimately follow the
                        # stored path text to the newcomer
                        lks = W.linkers_of(base_targets)
                        pre_outside = W.tree(W.doc, cut=[l for l, _, _ in lks])
                        W.doc.clean()
                        resolved = False
                        vio = check_cleaned_after_edit(W, lks, pre_outside, pre_own, base_targets)
                        base = W.tree(W.doc)
                        edited = False
                elif op == "cycle":
                    if resolved:
                        W.doc.clean()
                    W.doc.finalize()
                    a1 = W.tree(W.doc, with_ids=False)
                    W.doc.clean()
                    b1 = W.tree(W.doc)
                    W.doc.finalize()
                    a2 = W.tree(W.doc, with_ids=False)
                    W.doc.clean()
                    b2 = W.tree(W.doc)
                    resolved = False
                    if a1 != a2:
                        vio = ("link.idempotent", "second finalize differs from the first (ids ignored)")
                    elif b1 != b2:
                        vio = ("link.idempotent", "second clean differs from the first")
                    elif restore and not edited:
                        vio = check_restored(W, base, base_targets)
                    if edited:
                        base = W.tree(W.doc)
                        edited = False
                elif op == "restart":
                    if resolved:
                        W.doc.clean()
                        resolved = False
                    path = os.path.join(env.sandbox, "doc%d.xml" % step)
                    odml.save(W.doc, path, "xml")
                    W.doc = odml.load(path, "xml")
                    base = W.tree(W.doc)
                    edited = False
                    base_targets = [(lk, tgt) for lk, tgt, _ in W.linkers()]
                    own_ids = own_table()
                elif op == "save_check":
                    if resolved:
                        W.doc.clean()
                        resolved = False
                        if edited:
                            base = W.tree(W.doc)
                            edited = False
                    path = os.path.join(env.sandbox, "chk%d.xml" % step)
                    odml.save(W.doc, path, "xml")
                    msg = check_saved(path, W)
                    if msg:
                        vio = ("link.saved-clean", msg)
            except Exception as exc:
                vio = ("link.no-exception", "%s raised %s: %s" % (op, type(exc).__name__,
                                                                str(exc)[:160]))
            note(step, op)
            res.fault_shapes.add(seeds.H("c12", jdump(W.tree(W.doc, with_ids=False, designate=False)
                                                      ).replace(env.sandbox, "$SANDBOX"), op))
            if vio:
                res.violation = viol(vio[0], vio[1], step, op, labels)
                break
        for lab in labels:
            res.count("labels", lab)
    return res


def _names(trees):
    return [t["name"] for t in trees]


def _strip_ids(tree):
    out = {k: v for k, v in tree.items() if k not in ("id", "secs", "props")}
    out["secs"] = [_strip_ids(t) for t in tree.get("secs", [])]
    out["props"] = [_strip_ids(t) for t in tree.get("props", [])]
    return out


def check_finalized(W, lks, pre_outside, pre_own, restore):
    """finalize gave every linker a copy of each child of its target whose name it does not
    use, and changed neither the target nor any other part of the document."""
    post_outside = W.tree(W.doc, cut=[lk for lk, _, _ in lks])
    if post_outside != pre_outside:
        return ("link.rest-untouched", "finalize changed the document outside the linking Sections")
    for (lk, tgt, kind), (_, own_s, own_p) in zip(lks, pre_own):
        if tgt is None:
            return ("link.resolves", "the model cannot resolve the reference of /%s" %
                    "/".join(path_of(lk)))
        now_s = [W.tree(s, cut=getattr(W, "cut_inside", ())) for s in lk.sections]
        now_p = [W.tree(p) for p in lk.properties]
        for now, own, tkids, what in ((now_s, own_s, list(tgt.sections), "Section"),
                                      (now_p, own_p, list(tgt.properties), "Property")):
            used = _names(own)
            want = [_strip_ids(W.tree(c)) for c in tkids if [c.name] and
                    ["str", c.name] not in used]
            if restore:
                if now[:len(own)] != own:
                    return ("link.adds-copies", "own %s children of /%s changed or moved" %
                            (what, "/".join(path_of(lk))))
                got = [_strip_ids(t) for t in now[len(own):]]
                for t in got:
                    t.pop("merged", None)
                for t in want:
                    t.pop("merged", None)
                if got != want:
                    return ("link.adds-copies", "/%s: copied %s children %r, the model expects %r" %
                            ("/".join(path_of(lk)), what, [t["name"][1] for t in got],
                             [t["name"][1] for t in want]))
            else:
                have = _names(now)
                for t in want:
                    if t["name"] not in have:
                        return ("link.adds-copies", "/%s lacks a copy of %s %r" %
                                ("/".join(path_of(lk)), what, t["name"][1]))
                if len(have) != len(own) + len(want):
                    return ("link.adds-copies", "/%s has %d %s children, expected %d" %
                            ("/".join(path_of(lk)), len(have), what, len(own) + len(want)))
        if not lk.is_merged:
            return ("link.adds-copies", "/%s is not marked as merged" % "/".join(path_of(lk)))
    return None


def check_cleaned_after_edit(W, lks, pre_outside, pre_own, base_targets):
    """clean after the target side was edited while the links were resolved: the linking Sections
    hold exactly their own children again, nothing outside them was changed by the clean, and
    every stored link still designates the same target object."""
    post_outside = W.tree(W.doc, cut=[lk for lk, _, _ in lks])
    if _no_merged(post_outside) != _no_merged(pre_outside):
        return ("link.rest-untouched", "clean changed the document outside the linking Sections: %s"
                % first_diff(_no_merged(pre_outside), _no_merged(post_outside)))
    for (lk, tgt, kind), (_, own_s, own_p) in zip(lks, pre_own):
        now_s = [W.tree(s, cut=getattr(W, "cut_inside", ())) for s in lk.sections]
        now_p = [W.tree(p) for p in lk.properties]
        if now_s != own_s or now_p != own_p:
            return ("link.restored", "after clean /%s holds %r / %r, its own children are %r / %r" %
                    ("/".join(path_of(lk)), [t["name"][1] for t in now_s], [t["name"][1] for t in now_p],
                     [t["name"][1] for t in own_s], [t["name"][1] for t in own_p]))
    return check_designates(W, base_targets)


def _no_merged(tree):
    # the link of a linking Section is judged by what it designates (check_designates)
    out = {k: v for k, v in tree.items() if k not in ("merged", "secs", "props", "link")}
    out["secs"] = [_no_merged(t) for t in tree.get("secs", [])]
    out["props"] = [_no_merged(t) for t in tree.get("props", [])]
    return out


def check_restored(W, base, base_targets):
    now = W.tree(W.doc)
    if now != base:
        return ("link.restored", "clean did not restore the document: %s" % first_diff(base, now))
    return check_designates(W, base_targets)


def check_designates(W, base_targets):
    for lk, tgt in base_targets:
        if not any(lk is o for o in W.U.subtree(W.doc)):
            continue
        if lk.link is not None:
            if model_walk(W.doc, lk, lk.link) is not tgt:
                return ("link.still-designates", "link %r of /%s no longer designates its target" %
                        (lk.link, "/".join(path_of(lk))))
            try:
                got = lk.get_section_by_path(lk.link)
            except Exception as exc:
                return ("link.still-designates", "stored link %r does not resolve: %s" % (lk.link, exc))
            if got is not tgt:
                return ("link.still-designates", "stored link %r resolves to another Section" % lk.link)
    return None


def first_diff(a, b, path=""):
    if type(a) is not type(b):
        return "%s: %r vs %r" % (path, a, b)
    if isinstance(a, dict):
        for k in sorted(set(a) | set(b)):
            if a.get(k) != b.get(k):
                if k in ("secs", "props") and isinstance(a.get(k), list) and isinstance(b.get(k), list):
                    if len(a[k]) != len(b[k]):
                        return "%s.%s: %d vs %d children (%r vs %r)" % (
                            path, k, len(a[k]), len(b[k]), [t.get("name") for t in a[k]],
                            [t.get("name") for t in b[k]])
                    for i, (x, y) in enumerate(zip(a[k], b[k])):
                        if x != y:
                            return first_diff(x, y, "%s.%s[%d]" % (path, k, i))
                return "%s.%s: %r vs %r" % (path, k, a.get(k), b.get(k))
    return "%s: %r vs %r" % (path, a, b)


def check_saved(path, W):
    """The file saved after clean contains the reference but none of the referenced content."""
    from lxml import etree
    root = etree.parse(path).getroot()
    for lk, tgt, kind in W.linkers():
        node = root
        for name in path_of(lk):
            nxt = None
            for el in node.findall("section"):
                if (el.findtext("name") or "").strip() == name:
                    nxt = el
            if nxt is None:
                return "linking Section /%s is missing in the saved file" % "/".join(path_of(lk))
            node = nxt
        if node.find(kind) is None or not (node.findtext(kind) or "").strip():
            return "saved Section /%s has no <%s> element" % ("/".join(path_of(lk)), kind)
        if tgt is None:
            continue
        own_s = [s.name for s in lk.sections]
        own_p = [p.name for p in lk.properties]
        saved_s = [(el.findtext("name") or "").strip() for el in node.findall("section")]
        saved_p = [(el.findtext("name") or "").strip() for el in node.findall("property")]
        if saved_s != own_s or saved_p != own_p:
            return "saved children of /%s are %r / %r, in memory %r / %r" % (
                "/".join(path_of(lk)), saved_s, saved_p, own_s, own_p)
        if W.case["profile"] == "restore":
            for c in list(tgt.sections):
                if c.name in saved_s:
                    return "saved file holds referenced Section %r under /%s" % (
                        c.name, "/".join(path_of(lk)))
            for c in list(tgt.properties):
                if c.name in saved_p:
                    return "saved file holds referenced Property %r under /%s" % (
                        c.name, "/".join(path_of(lk)))
    return None


def explore(run_seed, tier, known=None):
    return run_case(generate(run_seed))


def execute(case, known=None):
    return run_case(case)


def shrink(case, sig):
    from simkit.shrink import shrink_case
    small = shrink_case(case, run_case, sig, list_keys=("script", "links"))
    return small
