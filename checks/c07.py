"""C07 - save never writes an invalid document and a failed save harms no file."""
import errno
import os

from simkit import fsbox, seams, seeds, sessioncheck
from simkit.session import Result, jdump, signature

PROPERTY = "C07"
ENGINE = "fsbox"
LEVEL = "fault_enumeration"
BUDGET = {"quick": (6000, 60), "thorough": (120000, 540)}
RULE = ("fault grid enumerated completely in both tiers: document defect {none, warnings only, Section "
        "type cleared, duplicate ids, duplicate sibling names - each planted at the top, deep, across "
        "branches, on Properties} x serialisation failure {none, unsupported rdf_format, control "
        "character in name/value/definition, lone surrogate in value/definition/author, attribute "
        "object json cannot encode} x warnings filter {always, error} for warnings-only documents x backend {XML plain/local_style/custom_template, JSON, YAML, RDF x 6 "
        "sub-formats} x target pre-state {absent, earlier bytes, directory} x entry point {odml.save, "
        "ODMLWriter.write_file, XMLWriter.write_file, RDFWriter.write_file} (incompatible "
        "combinations dropped); then seeded multi-step save histories in one sandbox over seeded random "
        "documents (target may hold the previous successful save; one ODMLWriter per backend reused "
        "across the steps) with failing opens injected. distinct = distinct "
        "(cell, outcome class) pairs")
COMPONENTS = {
    "real": ["odml.tools.odmlparser", "odml.tools.xmlparser", "odml.tools.rdf_converter",
             "odml.tools.dict_parser", "odml.validation", "odml.fileio", "lxml", "PyYAML", "json",
             "rdflib", "tmpfs file system"],
    "stub": ["uuid.uuid4", "wall clock", "builtins.open fails the k-th open-for-write (thorough "
             "histories only)"],
}
TECHNIQUE = ("FSBOX: fault grid enumeration (document defects and serialisation failures as faults) "
             "with whole-sandbox snapshots before/after every save, plus seeded save histories with "
             "injected open() failures")
LEVEL_TEXT = ("The finite fault grid of the quantifier is enumerated completely: for every cell the "
              "whole sandbox directory is snapshotted before and after the save call. A planted "
              "error-rank defect must make the validating entry points raise ParserException for "
              "every backend; whenever any entry point raises, no path may have been created or "
              "changed; a warnings-only document must be written once and the warning reported (a refusal "
              "nothing else explains is a violation), also when the caller escalates warnings to errors. "
              "Seeded histories then repeat this over sequences of saves into one sandbox.")
LEVEL_NOTE = ("the harness knows by construction whether it planted an error (Validation is not "
              "consulted); XMLWriter.write_file / RDFWriter.write_file do not validate and are judged "
              "by 'a failed save harms no file' only; faults inside write() after a successful open "
              "are not judged (would demand write-to-temp-and-rename, which the property does not state).")
DESIGN_REF = "DESIGN.md 4 (C07)"
ASSUMPTIONS = ["duplicate sibling names are planted with the inherited list.insert on the child list "
               "(no public route creates them once C04 holds)"]

RDF_FORMATS = ["xml", "pretty-xml", "nt", "n3", "turtle", "json-ld"]
RDF_EXT = {"xml": ".rdf", "pretty-xml": ".rdf", "nt": ".nt", "n3": ".n3", "turtle": ".ttl",
           "json-ld": ".jsonld"}
BACKENDS = [("xml", {}), ("xml", {"local_style": True}),
            ("xml", {"custom_template": "<xsl:template match=\"odML\"><p>x</p></xsl:template>"}),
            ("xml", {"local_style": True,
                     "custom_template": "<xsl:template match=\"odML\"><p>y</p></xsl:template>"}),
            ("json", {}), ("yaml", {})] + [("rdf", {"rdf_format": f}) for f in RDF_FORMATS]
DEFECTS = ["none", "warn", "type", "dupid", "dupname",
           # the same three ways of being invalid, planted deep and across branches
           "type_deep", "dupid_deep", "dupid_prop", "dupid_prop_deep", "dupname_deep", "dupname_prop",
           # the defect sits in content a resolved link brought in, and its origin has left the document
           "type_copy",
           # the Document has an id of its own: a Section or Property may carry that one
           "dupid_doc", "dupid_doc_prop"]
ERROR_DEFECTS = ("type", "dupid", "dupname", "type_deep", "dupid_deep", "dupid_prop",
                 "dupid_prop_deep", "dupname_deep", "dupname_prop", "type_copy",
                 "dupid_doc", "dupid_doc_prop")
FAILS = ["none", "rdf_format", "ctrl_name", "ctrl_value", "ctrl_def", "json_obj",
         # text no encoder of a text file can hold: a lone surrogate (what os.fsdecode returns
         # for undecodable file names); a renderer that lets it through fails in write()
         "surr_value", "surr_def", "surr_author",
         # the same in the custom XSL template handed to the XML writer
         "surr_template"]
PRES = ["absent", "earlier", "dir"]
ENTRIES = ["odml.save", "odml.save-noext", "ODMLWriter.write_file", "XMLWriter.write_file",
           "RDFWriter.write_file"]
# histories only: one ODMLWriter per backend kept for the whole session (a writer that remembers
# anything of an earlier, refused save must not let it leak into the next one)
HIST_ENTRIES = ENTRIES + ["ODMLWriter.write_file(reused)", "ODMLWriter.write_file(reused)"]


def compatible(backend, kwargs, fail, entry):
    if entry == "XMLWriter.write_file" and backend != "xml":
        return False
    if entry == "RDFWriter.write_file" and backend != "rdf":
        return False
    if fail == "rdf_format" and backend != "rdf":
        return False
    if fail == "surr_template" and not (backend == "xml" and kwargs.get("custom_template")):
        return False
    return True


def grid(tier):
    cases = []
    for defect in DEFECTS:
        for fail in FAILS:
            for backend, kwargs in BACKENDS:
                for pre in PRES:
                    for entry in ENTRIES:
                        if not compatible(backend, kwargs, fail, entry):
                            continue
                        cell = {"defect": defect, "fail": fail, "backend": backend,
                                "kwargs": kwargs, "pre": pre, "entry": entry, "name": "f0"}
                        cases.append({"format": 1, "engine": "savegrid", "property": PROPERTY,
                                      "run_seed": seeds.H("c07grid", jdump(cell)),
                                      "steps": [cell]})
                        if defect in ("warn", "none") and fail == "none":
                            cell = dict(cell, wfilter="error")
                            cases.append({"format": 1, "engine": "savegrid", "property": PROPERTY,
                                          "run_seed": seeds.H("c07grid", jdump(cell)),
                                          "steps": [cell]})
    return cases


def base_doc(odml, variant, deep_ok=True):
    """variant 0: the fixed document; otherwise a seeded random tree (depth <= 4)."""
    doc = odml.Document(author="c07", version="1")
    if not variant:
        s1 = odml.Section(name="s1", type="t", parent=doc)
        s2 = odml.Section(name="s2", type="t", parent=doc)
        odml.Property(name="p1", values=[1, 2], parent=s1)
        odml.Property(name="p2", values="text", parent=s1, definition="def")
        odml.Property(name="p3", values=["(1;2)"], dtype="2-tuple", parent=s2)
        s11 = odml.Section(name="s11", type="t", parent=s1)
        odml.Property(name="p4", values=[1.5], parent=s11)
        s111 = odml.Section(name="s111", type="t", parent=s11)
        odml.Property(name="p5", values=[True], parent=s111)
        odml.Section(name="s21", type="t", parent=s2)
        return doc
    import random
    rng = random.Random(variant)
    if variant % 7 == 1 and deep_ok:
        # a branch nested deeper than any reader or walker limit one might think of (290 levels;
        # the defects planted "deep" end up at its far end)
        cur = odml.Section(name="deep0", type="t", parent=doc)
        for i in range(1, 290):
            cur = odml.Section(name="deep%d" % i, type="t", parent=cur)
        odml.Property(name="bottom", values=[1], parent=cur)
    if variant % 7 == 3:
        # a document with many issues that are only warnings (Sections of the default type),
        # all of them ahead of whatever is planted below
        for i in range(rng.choice([26, 40, 101])):
            odml.Section(name="w%d" % i, parent=doc)
    if variant % 7 == 5:
        # siblings whose names look alike and are different names: composed and decomposed
        # spelling of one letter, upper and lower case - a valid document
        twin = odml.Section(name="Caf\u00e9", type="t", parent=doc)
        odml.Section(name="Cafe\u0301", type="t", parent=doc)
        odml.Property(name="\u00e4", values=[1], parent=twin)
        odml.Property(name="a\u0308", values=[2], parent=twin)
        odml.Property(name="A\u0308", values=[3], parent=twin)
    conts = [(doc, 0)]
    for i in range(rng.randint(2, 9)):
        par, depth = rng.choice([c for c in conts if c[1] < 4]) if i >= 2 else conts[0]
        sec = odml.Section(name="s%d" % i, type=rng.choice(["t", "t/u", "other"]), parent=par)
        conts.append((sec, depth + 1))
        for k in range(rng.randint(1 if i < 2 else 0, 2)):
            odml.Property(name="p%d_%d" % (i, k), parent=sec,
                          values=rng.choice([[1, 2], "text", [1.5], [True, False], ["a", "b"]]))
    return doc


def build_doc(odml, defect, fail, variant=0):
    import random
    rng = random.Random(variant * 7919 + 1)
    # (a document that deep is beyond what the YAML and RDF serialisers can write at all: it is
    # only used where the save has to be refused anyway)
    doc = base_doc(odml, variant, deep_ok=defect in ERROR_DEFECTS and fail == "none")
    secs = list(doc.itersections())
    props = list(doc.iterproperties())
    deep = [s for s in secs if s.parent is not doc] or secs

    def other_branch(node):
        """A Section that is neither node, an ancestor nor a descendant of node."""
        anc = []
        cur = node
        while cur is not None and cur is not doc:
            anc.append(cur)
            cur = cur.parent
        out = [s for s in secs if not any(s is a for a in anc) and
               not any(x is node for x in _ancestors(s, doc))]
        return out

    if defect == "warn":
        rng.choice(secs).prop_cardinality = (7, None)
    elif defect == "type":
        rng.choice([s for s in secs if s.parent is doc]).type = None
    elif defect == "type_deep":
        rng.choice(deep).type = None
    elif defect == "type_copy":
        tmpl = odml.Section(name="tmpl", type="t", parent=doc)
        bad = odml.Section(name="inner", type="t", parent=tmpl)
        odml.Property(name="pt", values=[1], parent=bad)
        bad.type = None
        user = odml.Section(name="user", type="t", parent=rng.choice(secs))
        user.link = "/tmpl"                 # resolved at once: user holds a copy of 'inner'
        doc.remove(tmpl)                    # the origin is gone, the copy without a type stays
    elif defect == "dupid":
        src = rng.choice([s for s in secs if s.parent is doc])
        dup = src.clone(keep_id=True)
        dup.name = src.name + "copy"
        doc.append(dup)
    elif defect == "dupid_deep":
        # the first holder lies deep inside an earlier branch, the second in another branch
        src = max(deep, key=lambda s: (len(_ancestors(s, doc)), -secs.index(s)))
        dest = other_branch(src) or [src.parent]
        dup = src.clone(keep_id=True, children=False)
        dup.name = src.name + "copy"
        rng.choice(dest).append(dup)
    elif defect in ("dupid_prop", "dupid_prop_deep"):
        src = rng.choice(props) if defect == "dupid_prop" else \
            max(props, key=lambda p: len(_ancestors(p.parent, doc)))
        dup = src.clone(keep_id=True)
        dup.name = src.name + "copy"
        dest = other_branch(src.parent) if defect == "dupid_prop_deep" else [src.parent]
        rng.choice(dest or [src.parent]).append(dup)
    elif defect == "dupid_doc":
        rng.choice(deep if variant % 2 else secs).append(
            odml.Section(name="docid", type="t", oid=doc.id))
    elif defect == "dupid_doc_prop":
        rng.choice(secs).append(odml.Property(name="docid", values=[1], oid=doc.id))
    elif defect == "dupname":
        tops = [s for s in secs if s.parent is doc]
        src = rng.choice(tops)
        list.insert(doc.sections, 0, odml.Section(name=src.name, type=src.type))
    elif defect == "dupname_deep":
        src = rng.choice(deep)
        clash = odml.Section(name=src.name, type=src.type)
        list.append(src.parent.sections, clash)
    elif defect == "dupname_prop":
        src = rng.choice(props)
        list.append(src.parent.properties, odml.Property(name=src.name, values=[3]))
    if variant % 3 == 1 and len(secs) >= 2:
        # an unresolved link, the state of a document right after loading: writers that resolve
        # references before serialising (RDF) must still write a valid document
        tgt = rng.choice(secs)
        others = [s for s in secs if s is not tgt and not any(a is tgt for a in _ancestors(s, doc))
                  and not any(a is s for a in _ancestors(tgt, doc))]
        if others:
            par = rng.choice(others)
            par.append(odml.Section(name="linker", type="t", link=tgt.get_path()))
    host = rng.choice(secs)
    if fail == "ctrl_name":
        odml.Property(name="bad\x00name", values=1, parent=host)
    elif fail == "ctrl_value":
        odml.Property(name="pc", values="bad\x1fvalue", parent=host)
    elif fail == "ctrl_def":
        host.definition = "bad\x00def"
    elif fail == "json_obj":
        host.definition = {1, 2}
    elif fail == "surr_value":
        odml.Property(name="ps", values="file\udcff.dat", parent=host)
    elif fail == "surr_def":
        host.definition = "half a pair \ud83d"
    elif fail == "surr_author":
        doc.author = "A\udcffB"
    return doc


def _ancestors(node, doc):
    out = []
    cur = node.parent
    while cur is not None and cur is not doc:
        out.append(cur)
        cur = cur.parent
    return out


def target_of(entry, backend, kwargs, name):
    """(filename handed to the call, paths the call may legitimately write)."""
    ext = "." + backend if backend != "rdf" else RDF_EXT[kwargs.get("rdf_format", "xml")]
    if entry == "odml.save-noext":
        return name, [name + "." + backend]
    return name + ext, [name + ext]


def do_save(odml, entry, doc, path, backend, kwargs, writers=None):
    from odml.tools.odmlparser import ODMLWriter
    if entry == "ODMLWriter.write_file(reused)":
        if backend not in writers:
            writers[backend] = ODMLWriter(backend)
        writers[backend].write_file(doc, path, **kwargs)
        return
    from odml.tools.xmlparser import XMLWriter
    from odml.tools.rdf_converter import RDFWriter
    if entry in ("odml.save", "odml.save-noext"):
        odml.save(doc, path, backend, **kwargs)
    elif entry == "ODMLWriter.write_file":
        ODMLWriter(backend).write_file(doc, path, **kwargs)
    elif entry == "XMLWriter.write_file":
        XMLWriter(doc).write_file(path, **kwargs)
    elif entry == "RDFWriter.write_file":
        RDFWriter(doc).write_file(path, kwargs.get("rdf_format", "turtle"))


def run_case(case):
    import odml
    res = Result(case)
    streams = seeds.Streams(case["run_seed"])
    with seams.installed(streams) as env:
        box = os.path.join(env.sandbox, "box")
        os.makedirs(box)
        good = {}     # path -> True once a save into it succeeded in this session
        writers = {}  # backend -> ODMLWriter kept across the steps of a history
        for step, cell in enumerate(case["steps"]):
            res.stats["steps"] += 1
            kwargs = dict(cell["kwargs"])
            if cell["fail"] == "rdf_format":
                kwargs["rdf_format"] = "bogus-format"
            if cell["fail"] == "surr_template":
                kwargs["custom_template"] = kwargs["custom_template"].replace("<p>", "<p>\udcff")
            doc = build_doc(odml, cell["defect"], cell["fail"], cell.get("variant", 0))
            fname, may_write = target_of(cell["entry"], cell["backend"], cell["kwargs"], cell["name"])
            if cell["fail"] == "rdf_format" and cell["entry"] != "odml.save-noext":
                may_write = [fname]
            path = os.path.join(box, fname)
            wpaths = [os.path.join(box, p) for p in may_write]
            # target pre-state
            for wp in wpaths:
                if cell["pre"] == "absent":
                    if os.path.isdir(wp):
                        os.rmdir(wp)
                    elif os.path.exists(wp):
                        os.remove(wp)
                elif cell["pre"] == "earlier":
                    if os.path.isdir(wp):
                        os.rmdir(wp)
                    with open(wp, "w") as fobj:
                        fobj.write("EARLIER DATA %s\n" % cell["name"])
                elif cell["pre"] == "dir":
                    if os.path.isfile(wp):
                        os.remove(wp)
                    os.makedirs(wp, exist_ok=True)
                elif cell["pre"] == "previous":
                    pass      # whatever the session left there
            target_is_dir = any(os.path.isdir(wp) for wp in wpaths)
            before = fsbox.snapshot(box)
            env.capture.take()
            labels = ["defect:" + cell["defect"], "fail:" + cell["fail"], "pre:" + cell["pre"]]
            fault = None
            import warnings as _warnings
            try:
                with _warnings.catch_warnings(record=(cell.get("wfilter") != "error")) as wlist:
                    # "error": the caller runs with warnings escalated to exceptions (-W error);
                    # the save of a warnings-only document then raises - like any other save that
                    # raises it must not have touched the target
                    _warnings.simplefilter(cell.get("wfilter", "always"))
                    if cell.get("open_fault"):
                        with fsbox.failing_open(box, cell["open_fault"]["k"],
                                                getattr(errno, cell["open_fault"]["errno"])) as fault:
                            do_save(odml, cell["entry"], doc, path, cell["backend"], kwargs, writers)
                    else:
                        do_save(odml, cell["entry"], doc, path, cell["backend"], kwargs, writers)
                    if wlist:
                        env.capture.warnings.extend(wlist)
                outcome = ("ret", None)
            except Exception as exc:
                outcome = ("exc", type(exc).__name__, str(exc)[:160])
            if cell.get("wfilter") == "error":
                labels.append("warnings-as-errors")
            if fault is not None and fault.fired:
                labels.append("open_fails_" + cell["open_fault"]["errno"])
            _, _, wrn = env.capture.take()
            after = fsbox.snapshot(box)
            created, changed, removed = fsbox.diff(before, after)
            res.log.append(jdump({"step": step, "cell": cell, "outcome": list(outcome[:2]),
                                  "created": created, "changed": changed, "removed": removed}))
            res.count("refusals", "%s|%s|%s" % (cell["entry"], ",".join(labels),
                                                outcome[1] if outcome[0] == "exc" else "returned"))
            for lab in labels:
                res.count("labels", lab)
            res.fault_shapes.add(seeds.H("c07", jdump({k: v for k, v in cell.items() if k != "name"}),
                                         outcome[0], outcome[1] if outcome[0] == "exc" else ""))
            validating = cell["entry"] in ("odml.save", "odml.save-noext", "ODMLWriter.write_file",
                                           "ODMLWriter.write_file(reused)")
            vio = None
            if outcome[0] == "exc":
                if created or changed or removed:
                    vio = ("save.no-trace", "%s raised %s but the sandbox changed: created %r "
                           "changed %r removed %r" % (cell["entry"], outcome[1], created, changed,
                                                      removed))
                elif validating and cell["defect"] in ERROR_DEFECTS and \
                        outcome[1] != "ParserException":
                    vio = ("save.refuses-invalid", "%s of a document with defect %r raised %s, not "
                           "ParserException: %s" % (cell["entry"], cell["defect"], outcome[1],
                                                    outcome[2]))
                elif cell["defect"] == "warn" and cell["fail"] == "none" and not target_is_dir \
                        and not (fault is not None and fault.fired) and cell.get("wfilter") != "error":
                    # nothing but the warning could be the reason: "a document with warnings
                    # only is written"
                    vio = ("save.warns-and-writes", "%s refused a document that has warnings only: "
                           "%s: %s" % (cell["entry"], outcome[1], outcome[2]))
            else:
                if validating and cell["defect"] in ERROR_DEFECTS:
                    vio = ("save.refuses-invalid", "%s wrote a document with defect %r (%s)" %
                           (cell["entry"], cell["defect"], cell["backend"]))
                else:
                    touched = created + changed
                    stray = [p for p in touched + removed if p not in may_write]
                    if stray:
                        vio = ("save.writes-target-only", "successful save touched %r besides the "
                               "target %r" % (stray, may_write))
                    elif not any(after.get(p, ("", 0, ""))[0] == "file" and after[p][1] > 0
                                 for p in may_write):
                        vio = ("save.warns-and-writes", "save returned but the target %r is missing "
                               "or empty" % (may_write,))
                    elif cell["defect"] == "warn" and validating and cell.get("wfilter") != "error" and \
                            not any(c == "UserWarning" for c, _ in wrn):
                        vio = ("save.warns-and-writes", "warnings-only document was saved without "
                               "a UserWarning")
                    if vio is None and validating:
                        msg = written_is_valid(odml, doc)
                        if msg:
                            vio = ("save.refuses-invalid", msg)
                    for p in may_write:
                        good[p] = True
            if vio:
                res.violation = {"monitor": vio[0], "message": vio[1], "step": step,
                                 "op": {"op": cell["entry"]}, "labels": labels,
                                 "outcome": list(outcome[:2]),
                                 "signature": signature(vio[0], "%s:%s" % (cell["entry"],
                                                                           cell["backend"]),
                                                        [l for l in labels if not l.startswith("pre:")])}
                break
    return res


def written_is_valid(odml, doc):
    """'A document with a validation error is never written': a writer may change the document
    between validating and serialising it (the RDF writer resolves links first); what it has
    serialised is the document as it stands when the call returns, and that must be valid.
    (Loading the file back instead would judge round-trip fidelity, which is C01/C02/C10's.)"""
    from odml.validation import Validation
    errs = [e for e in Validation(doc).errors if e.is_error]
    if errs:
        return "the document as it was serialised has validation errors: %s" % str(errs[0].msg)[:140]
    return None


def explore(run_seed, tier, known=None):
    rng = seeds.Streams(run_seed).get("gen")
    steps = []
    for _ in range(rng.randint(2, 6)):
        while True:
            backend, kwargs = rng.choice(BACKENDS)
            fail = rng.choice(FAILS + ["none", "none"])
            entry = rng.choice(HIST_ENTRIES)
            if compatible(backend, kwargs, fail, entry):
                break
        cell = {"defect": rng.choice(DEFECTS + ["none"]), "fail": fail, "backend": backend,
                "kwargs": kwargs, "pre": rng.choice(["previous", "previous", "absent", "earlier", "dir"]),
                "entry": entry, "name": rng.choice(["f0", "f1"])}
        if rng.random() < 0.7:
            cell["variant"] = rng.randrange(1, 1000000)
        if rng.random() < 0.15:
            cell["wfilter"] = "error"
        if rng.random() < 0.2:
            cell["open_fault"] = {"k": 1, "errno": rng.choice(["ENOSPC", "EACCES", "EISDIR"])}
        steps.append(cell)
    case = {"format": 1, "engine": "savehist", "property": PROPERTY, "run_seed": run_seed,
            "steps": steps}
    return run_case(case)


def execute(case, known=None):
    return run_case(case)


def shrink(case, sig):
    from simkit.shrink import shrink_case
    return shrink_case(case, run_case, sig, list_keys=("steps",))
