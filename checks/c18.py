"""C18 - background loading of terminologies / templates is transparent in every schedule."""
import contextlib
import hashlib
import os
import urllib.error
import urllib.request

from simkit import seams, seeds, sched as S
from simkit.session import Result, jdump, signature
from simkit.universe import Universe, kind_of

PROPERTY = "C18"
ENGINE = "threads"
LEVEL = "exploration"
BUDGET = {"quick": (15000, 60), "thorough": (400000, 540)}
RULE = ("seeded scenarios: acyclic include graph over 1-4 resource files (single, chain, fan, diamond, "
        "shared leaf, missing / unparsable leaf, missing root) reached through file: URLs (real "
        "urllib) or sim: URLs (scripted fetch faults), cache pre-state per URL (empty, warm, stale, "
        "source missing / changed), a main-task script of 2-5 calls (deferred_load, load, refresh, "
        "Section.include, repository + get_terminology_equivalent, TemplateHandler) and a seeded "
        "scheduling policy (random, PCT d=1..3, run-to-block, round-robin, starve). Every run is "
        "compared with the sequential reference execution of the same script. distinct = distinct "
        "schedules (hash of the sequence of (task, yield-point kind)) containing at least one "
        "pre-emption")
COMPONENTS = {
    "real": ["odml.terminology", "odml.templates", "odml.section (include / repository)", "odml.doc",
             "odml.tools.xmlparser", "lxml", "urllib on file: URLs", "real threading.Thread objects "
             "(parked, one runs at a time)", "tmpfs cache directory"],
    "stub": ["thread scheduling (baton passing, seeded choice at every yield point)",
             "threading.Lock/RLock/Event/Condition/Semaphore (scheduler-owned)",
             "shared tables (dict subclasses whose accesses are yield points)",
             "wall clock (1 s per scheduler step; jumps only at quiescence)",
             "sim: URL fetches (scripted outcomes)", "uuid.uuid4"],
}
TECHNIQUE = ("THREADS: deterministic simulation of the loader threads - real threads under a baton-"
             "passing seeded scheduler, fetch and cache faults injected; the sequential execution is "
             "checked against a small executable reference model of the loader (tables, shared cache, "
             "sources, clock), every scheduled history against the sequential execution")
LEVEL_TEXT = ("Seeded search over thread interleavings at the granularity the quantifier names (accesses "
              "to the loaded / loading tables, thread start, run and join, plus urlopen and locks). The "
              "library's own loader threads run real code; only who runs next is simulated. The "
              "sequential execution of every script is judged against an executable reference model "
              "written from the statement (None or the exact set of resource versions per load), each "
              "scheduled run against the sequential execution of the same script: no call "
              "raises, the run terminates (no deadlock, step cap), load results equal the reference, "
              "repeated loads return the same object until refresh, failed fetches leave the cache "
              "untouched, no loader is left alive at quiescence. Two TemplateHandler instances and the global "
              "terminology table share one cache directory and, per class, one loading table.")
LEVEL_NOTE = ("file-level races inside cache_load (one thread truncating the cache file another parses) "
              "are outside the stated granularity; clock jumps and source changes happen only at "
              "quiescent points so that schedule dependence is never legitimate; not exhaustive: the "
              "evidence reports distinct schedules reached.")
DESIGN_REF = "DESIGN.md 3.4, 4 (C18)"
ASSUMPTIONS = ["one scheduler step = 1 s of simulated time; cache age is 86400 s, step cap 2000"]

GRAPHS = {
    "single": ({"a": []}, ["a"]),
    "chain2": ({"a": ["b"], "b": []}, ["a"]),
    "chain3": ({"a": ["b"], "b": ["c"], "c": []}, ["a"]),
    "fan": ({"a": ["b", "c"], "b": [], "c": []}, ["a"]),
    "diamond": ({"a": ["b", "c"], "b": ["d"], "c": ["d"], "d": []}, ["a"]),
    "shared-leaf": ({"a": ["c"], "b": ["c"], "c": []}, ["a", "b"]),
    "missing-leaf": ({"a": ["b"]}, ["a"]),
    "unparsable-leaf": ({"a": ["b"], "b": "bad"}, ["a"]),
    "missing-root": ({}, ["a"]),
}
BAD_KINDS = ["text", "version1", "nonutf8", "empty"]
SIM_FAULTS = ["urlerror", "read-raises", "nonutf8", "notxml"]
CACHE_STATES = ["empty", "empty", "warm", "stale", "stale+source-missing", "warm+source-missing",
                "warm+source-changed"]
POLICIES = [{"kind": "random"}, {"kind": "random"}, {"kind": "pct", "d": 1}, {"kind": "pct", "d": 2},
            {"kind": "pct", "d": 3}, {"kind": "run-to-block"}, {"kind": "round-robin"},
            {"kind": "starve", "task": "M"}, {"kind": "starve", "task": "L1"},
            {"kind": "pause-write", "n": 1}, {"kind": "pause-write", "n": 2},
            {"kind": "pause-write", "n": 3}, {"kind": "pause-write", "n": 4}]


def uid(name, k):
    h = hashlib.md5(("%s-%s" % (name, k)).encode()).hexdigest()
    return "%s-%s-4%s-8%s-%s" % (h[:8], h[8:12], h[13:16], h[17:20], h[20:32])


def file_text(name, includes, urls, variant=""):
    """odML 1.1 resource: one top Section per include (or one without), own Property and child."""
    out = ['<?xml version="1.0" encoding="UTF-8"?>', '<odML version="1.1">',
           "  <id>%s</id>" % uid(name, "doc")]
    tops = includes or [None]
    for k, inc in enumerate(tops):
        out.append("  <section>")
        out.append("    <id>%s</id>" % uid(name, "top%d" % k))
        out.append("    <name>top_%s%d</name>" % (name, k))
        out.append("    <type>type_%s</type>" % name)
        if inc is not None:
            ref = urls[inc] + ("#/top_%s0" % inc if (ord(name[0]) + k) % 2 == 0 else "")
            out.append("    <include>%s</include>" % ref)
        out.append("    <property><id>%s</id><name>p_%s</name><value>%s%s</value><type>string</type>"
                   "</property>" % (uid(name, "p%d" % k), name, name, variant))
        out.append("    <section><id>%s</id><name>own_%s</name><type>t</type></section>" %
                   (uid(name, "own%d" % k), name))
        out.append("  </section>")
    out.append("</odML>")
    return "\n".join(out) + "\n"


def bad_bytes(kind):
    if kind == "text":
        return b"this is not xml at all\n"
    if kind == "version1":
        return b'<?xml version="1.0"?>\n<odML version="1"><section><name>x</name><type>t</type></section></odML>\n'
    if kind == "nonutf8":
        return b'<?xml version="1.0" encoding="UTF-8"?>\n<odML version="1.1"><author>\xff\xfe\xfa</author></odML>\n'
    return b""


def generate(run_seed):
    st = seeds.Streams(run_seed)
    rng = st.get("gen")
    shape = rng.choice(sorted(GRAPHS))
    graph, roots = GRAPHS[shape]
    scen = {"shape": shape, "nodes": {}, "cache": {}}
    names = sorted(set(list(graph) + [m for v in graph.values() if isinstance(v, list) for m in v] + roots))
    for n in names:
        if n not in graph:
            kind = "missing"
        elif graph[n] == "bad":
            kind = "bad:" + rng.choice(BAD_KINDS)
        else:
            kind = "ok"
        scheme = "file"
        if n != "a" and rng.random() < 0.2:
            scheme = "sim"
            if kind != "ok" or rng.random() < 0.5:
                kind = "simfault:" + rng.choice(SIM_FAULTS)
        scen["nodes"][n] = {"kind": kind, "scheme": scheme,
                            "includes": graph.get(n) if isinstance(graph.get(n), list) else []}
        included = any(n in v for v in graph.values() if isinstance(v, list))
        if kind == "ok" and not included and not graph.get(n) and rng.random() < 0.15:
            # a valid resource without any Section (such a Document is falsy: len() == 0)
            scen["nodes"][n]["sectionless"] = True
        if kind == "ok" and not scen["nodes"][n].get("sectionless") and rng.random() < 0.12:
            # a resource in another encoding than UTF-8, correctly declared: parses fine directly
            scen["nodes"][n]["enc"] = rng.choice(["ISO-8859-1", "UTF-16"])
        scen["cache"][n] = rng.choice(CACHE_STATES)
        if kind == "ok" and st.get("sizes").random() < 0.5:
            scen["nodes"][n]["same_size"] = True
    # script: half of the runs follow a racy template (a deferred load of a root, then calls on
    # the root and on the resources it includes while the loaders are in flight)
    script = []
    pool = names
    template = rng.random() < 0.5
    if rng.random() < 0.12:
        # ask, let the loaded terminology be replaced (or its cache expire), ask again: what an
        # object answered before must not stick to it
        u = rng.choice(pool)
        ask = rng.choice(["repository", "repository", "load", "t_load"])
        script += [[ask, u], rng.choice([["refresh", rng.choice([u] + roots)], ["advance"], ["wipe_cache"]]),
                   [rng.choice([ask, "t2_load"]) if ask == "t_load" else ask, u]]
        template = None
    if template:
        root = rng.choice(roots)
        script.append([rng.choice(["deferred_load", "deferred_load", "t_deferred_load"]), root])
        for _ in range(rng.randint(1, 3)):
            u = rng.choice(pool)
            kind = rng.choice(["load", "load", "deferred_load", "repository", "include"])
            script.append([kind, u, None] if kind == "include" else [kind, u])
        last = rng.choice(["load", "load", "t_load"])
        if script[0][0] == "t_deferred_load" and rng.random() < 0.5:
            # a second TemplateHandler of the same process asks while the first one's loader is
            # in flight (the loaded table is per handler, the loading table is the class')
            last = "t2_load"
        script.append([last, root])
        if last in ("t_load", "t2_load") or rng.random() < 0.2:
            script.append([last, root])     # the same call again: the same object
    for _ in range(0 if template else (rng.randint(0, 2) if template is None else rng.randint(2, 5))):
        r = rng.random()
        u = rng.choice(pool if rng.random() < 0.5 else roots)
        if r < 0.3:
            script.append(["deferred_load", u])
        elif r < 0.6:
            script.append(["load", u])
        elif r < 0.68:
            script.append(["refresh", u])
        elif r < 0.78:
            script.append(["include", u, rng.choice([None, "/top_%s0" % u])])
        elif r < 0.86:
            script.append(["repository", u])
        elif r < 0.92:
            script.append([rng.choice(["t_deferred_load", "t_load", "t2_load", "t2_deferred_load"]), u])
        elif r < 0.96:
            # the cache directory ages, or is emptied by whoever tidies the temporary directory
            script.append(["advance"] if rng.random() < 0.6 else ["wipe_cache"])
        else:
            script.append(["quiesce"])
    policy = rng.choice(POLICIES)
    case = {"format": 1, "engine": "threads", "property": PROPERTY, "run_seed": run_seed,
            "scenario": scen, "script": script, "policy": policy, "schedule": None}
    if st.get("many").random() < 0.004:
        # SIZE: one handler is asked for more distinct resources than any small table keeps
        # (40), then for the first one again: the same object, as for two resources
        scen = {"shape": "many", "nodes": {}, "cache": {}}
        many = ["m%02d" % i for i in range(40)]
        for n in many:
            scen["nodes"][n] = {"kind": "ok", "scheme": "file", "includes": []}
            scen["cache"][n] = "empty"
        which = st.get("many").choice(["t_load", "load"])
        script = [[which, many[0]]] + [[which, n] for n in many[1:]] + [[which, many[0]]]
        policy = {"kind": "run-to-block"}
        case = {"format": 1, "engine": "threads", "property": PROPERTY, "run_seed": run_seed,
                "scenario": scen, "script": script, "policy": policy, "schedule": None}
        return case
    if st.get("startfault").random() < 0.06:
        # fault: the n-th attempt to start a thread fails ("can't start new thread"); the call it
        # fails in may raise, nothing after it may
        scen["start_fault"] = st.get("startfault").randint(1, 3)
    if st.get("swarm").random() < 0.04:
        case["extended"] = True
        xr = st.get("extended")
        if xr.random() < 0.5:
            # the two kinds of handler keep separate tables and share the cache file of a URL:
            # one loads a resource in the background, the other is asked for it at once
            u = xr.choice(roots)
            pair = xr.choice([["t_deferred_load", "load"], ["deferred_load", "t_load"],
                              ["t_deferred_load", "t2_load"]])
            case["script"] = [[pair[0], u], [pair[1], u]] + script[:2]
            scen["cache"][u] = "empty"
    return case


# ---------------------------------------------------------------------------------- the world
class SimResponse(object):
    def __init__(self, data, fail_read=False):
        self._data = data
        self._fail = fail_read

    def read(self):
        if self._fail:
            raise OSError("connection reset while reading the body")
        return self._data


class UrlShim(object):
    """Stands in for urllib.request as seen from the two modules: real for file:, scripted for sim:."""

    def __init__(self, world):
        self.world = world

    def urlopen(self, url, *args, **kwargs):
        w = self.world
        if w.sched is not None:
            w.sched.yield_point("net.urlopen", url.rsplit("/", 1)[-1])
        w.fetches.append(url)
        if url.startswith("sim:"):
            name = url[4:].split(".")[0]
            node = w.case["scenario"]["nodes"].get(name, {"kind": "missing"})
            kind = node["kind"]
            if name in w.missing_now or kind == "missing" or kind == "simfault:urlerror":
                w.failed_fetch.add(url)
                raise urllib.error.URLError("simulated: host unreachable")
            if kind == "simfault:read-raises":
                w.failed_fetch.add(url)
                return SimResponse(b"", fail_read=True)
            if kind == "simfault:nonutf8":
                # fetched fine; the body is no XML in any encoding (an unparsable resource)
                return SimResponse(b"\xff\xfe\xfa not utf-8")
            if kind == "simfault:notxml":
                return SimResponse(b"plain text, fetched fine but not xml\n")
            return SimResponse(w.content(name))
        try:
            return urllib.request.urlopen(url, *args, **kwargs)
        except Exception:
            w.failed_fetch.add(url)
            raise

    def __getattr__(self, name):
        return getattr(urllib.request, name)


class World(object):
    def __init__(self, case, env, scheduler):
        self.case = case
        self.env = env
        self.sched = scheduler
        self.fetches = []
        self.failed_fetch = set()
        self.missing_now = set()
        self.changed_now = set()
        self.srcdir = os.path.join(env.sandbox, "src")
        os.makedirs(self.srcdir, exist_ok=True)
        self.urls = {}
        for n, node in case["scenario"]["nodes"].items():
            if node["scheme"] == "sim":
                self.urls[n] = "sim:%s.xml" % n
            else:
                self.urls[n] = "file://" + os.path.join(self.srcdir, "%s.xml" % n)

    def content(self, name, variant=""):
        node = self.case["scenario"]["nodes"][name]
        if node["kind"].startswith("bad:"):
            return bad_bytes(node["kind"][4:])
        text = file_text(name, node["includes"], self.urls, variant)
        if node.get("sectionless"):
            text = ('<?xml version="1.0" encoding="UTF-8"?>\n<odML version="1.1">\n  <id>%s</id>\n'
                    '  <author>%s%s</author>\n</odML>\n' % (uid(name, "doc"), name, variant))
        if node.get("same_size"):
            # every version of this resource has the same number of bytes (a digit changed)
            text += "<!--%s-->\n" % ("." * (8 - len(variant)))
        enc = node.get("enc")
        if enc:
            text = text.replace('encoding="UTF-8"', 'encoding="%s"' % enc).replace(
                "<odML version=\"1.1\">", "<odML version=\"1.1\">\n  <author>Jos\u00e9 N\u00fa\u00f1ez</author>")
            return text.encode(enc)
        return text.encode("utf-8")

    def cache_path(self, name):
        import tempfile
        url = self.urls[name]
        fname = ".".join([hashlib.md5(url.encode()).hexdigest(), os.path.basename(url)])
        return os.path.join(tempfile.gettempdir(), "odml.cache", fname)

    def setup_files(self):
        scen = self.case["scenario"]
        now = self.env.clock.now()
        for n, node in scen["nodes"].items():
            state = scen["cache"][n]
            present = node["kind"] == "ok" or node["kind"].startswith("bad:")
            if node["scheme"] == "file" and present and "source-missing" not in state:
                variant = "-new" if state == "warm+source-changed" else ""
                with open(os.path.join(self.srcdir, "%s.xml" % n), "wb") as fobj:
                    fobj.write(self.content(n, variant))
            if node["scheme"] == "sim" and "source-missing" in state:
                self.missing_now.add(n)
            if state != "empty" and (node["kind"] == "ok"):
                cpath = self.cache_path(n)
                os.makedirs(os.path.dirname(cpath), exist_ok=True)
                with open(cpath, "wb") as fobj:
                    # a stale copy holds an older version of the resource: serving it instead of
                    # fetching again shows in the content
                    fobj.write(self.content(n, "" if state.startswith("warm") else "-old"))
                age = 3600 if state.startswith("warm") else 2 * 86400
                os.utime(cpath, (now - age, now - age))

    def cache_snapshot(self):
        out = {}
        for n in self.case["scenario"]["nodes"]:
            cpath = self.cache_path(n)
            if os.path.exists(cpath):
                with open(cpath, "rb") as fobj:
                    data = fobj.read()
                out[n] = (hashlib.sha256(data).hexdigest(), int(os.path.getmtime(cpath)))
            else:
                out[n] = None
        return out


class StampingOpen(object):
    """open() as seen from the two modules: files written get the simulated time as mtime."""

    def __init__(self, clock):
        self.clock = clock

    def __call__(self, file, mode="r", *args, **kwargs):
        fobj = open(file, mode, *args, **kwargs)
        if any(c in mode for c in "wax+"):
            clock = self.clock
            real_close = fobj.close

            def close():
                real_close()
                try:
                    os.utime(file, (clock.now(), clock.now()))
                except OSError:
                    pass
            fobj.close = close
            cls_exit = fobj.__exit__

            class Wrapper(object):
                def __getattr__(self, name):
                    return getattr(fobj, name)

                def __enter__(self):
                    fobj.__enter__()
                    return self

                def __exit__(self, *exc):
                    res = cls_exit(*exc)
                    try:
                        os.utime(file, (clock.now(), clock.now()))
                    except OSError:
                        pass
                    return res

                def close(self):
                    close()
            return Wrapper()
        return fobj


@contextlib.contextmanager
def loader_seams(world, scheduler):
    """Install the THREADS seams on odml.terminology / odml.templates."""
    import odml.terminology as T
    import odml.templates as TP
    saved = []

    def patch(obj, name, value):
        saved.append((obj, name, obj.__dict__.get(name, _MISSING) if isinstance(obj, type)
                      else getattr(obj, name, _MISSING)))
        setattr(obj, name, value)

    shim = UrlShim(world)
    stamp = StampingOpen(world.env.clock)
    patch(T, "urllib2", shim)
    patch(TP, "urllib2", shim)
    patch(T, "open", stamp)
    patch(TP, "open", stamp)
    if scheduler is not None:
        simthreading = S.SimThreading(scheduler)
        patch(T, "threading", simthreading)
        patch(TP, "threading", simthreading)
        term_cls = S.make_yield_dict(T.Terminologies, scheduler, "terminologies")
        term_cls.loading = S.make_yield_dict(dict, scheduler, "loading")()
        templ_cls = S.make_yield_dict(TP.TemplateHandler, scheduler, "templates")
        templ_cls.loading = S.make_yield_dict(dict, scheduler, "t-loading")()
        # real synchronisation objects created at import time must never be touched by a
        # parked task: replace them by scheduler-owned ones
        for holder in (T, TP, term_cls, templ_cls):
            src = holder.__dict__ if not isinstance(holder, type) else None
            names = list(vars(holder)) if src is None else list(src)
            for klass in ([holder] + list(holder.__mro__[1:-1]) if isinstance(holder, type) else []):
                names += list(vars(klass))
            for name in set(names):
                val = getattr(holder, name, None)
                if isinstance(val, S.REAL_SYNC_TYPES):
                    kind = type(val).__name__
                    repl = simthreading.RLock() if "RLock" in kind else \
                        simthreading.Lock() if "lock" in kind.lower() else \
                        simthreading.Event() if "Event" in kind else \
                        simthreading.Condition() if "Condition" in kind else simthreading.Semaphore()
                    patch(holder, name, repl)
    else:
        class term_cls(T.Terminologies):
            loading = {}

        class templ_cls(TP.TemplateHandler):
            loading = {}
    inst = term_cls()
    # count overlapping _load calls for one url (probe)
    if scheduler is not None and hasattr(inst, "_load"):
        active = {}
        inner = inst._load

        def counted_load(url, *a, **k):
            active[url] = active.get(url, 0) + 1
            if active[url] > 1:
                scheduler.probe("overlapping_load_same_url")
            try:
                return inner(url, *a, **k)
            finally:
                active[url] -= 1
        inst._load = counted_load
    patch(T, "terminologies", inst)
    patch(T, "load", inst.load)
    patch(T, "deferred_load", inst.deferred_load)
    patch(T, "refresh", inst.refresh)
    patch(TP, "TemplateHandler", templ_cls)
    world.term = inst
    world.templ_cls = templ_cls
    try:
        yield
    finally:
        for obj, name, value in reversed(saved):
            if value is _MISSING:
                try:
                    delattr(obj, name)
                except AttributeError:
                    pass
            else:
                setattr(obj, name, value)


_MISSING = object()


FILE_IDS = set(uid(n, k) for n in "abcd" for k in ["doc"] + ["%s%d" % (w, i) for w in ("top", "p", "own")
                                                          for i in range(4)])


def doc_tree(obj, U=None, depth=0):
    """Nested canonical tree; ids that do not come from a resource file (the copies made when an
    include is resolved get fresh uuids, drawn in schedule order) are normalised."""
    U = U or Universe()
    rec = U.record(obj)
    out = {k: v for k, v in rec.items() if k not in ("parent", "secs", "props")}
    if out.get("id") not in FILE_IDS:
        out["id"] = "<fresh>"
    if depth < 40:
        if kind_of(obj) in ("doc", "sec"):
            out["secs"] = [doc_tree(s, U, depth + 1) for s in obj.sections]
        if kind_of(obj) == "sec":
            out["props"] = [doc_tree(p, U, depth + 1) for p in obj.properties]
    return out


def run_script(case, mode, forced=None):
    """Execute the main-task script.  mode: 'sequential' (loaders run inside start()) or
    'scheduled'.  Returns a dict history."""
    import odml
    streams = seeds.Streams(case["run_seed"])
    clock = seams.SimClock()
    hist = {"calls": [], "deadlock": None, "step_cap": False, "leaked": [], "probes": {},
            "schedule": [], "events": [], "loader_alive_at_quiescence": False, "steps": 0,
            "preemptions": 0, "diverged": False, "cache_before": None, "cache_after": None,
            "failed_fetch": [], "final_loads": {}, "sim_time": 0, "max_live": 1,
            "loader_exceptions": []}
    with seams.installed(streams, clock=clock) as env:
        scheduler = None
        if mode == "scheduled":
            if case.get("extended"):
                # observation mode: every source line of the two loader modules is a pre-emption
                # point - finer than the granularity the quantifier names, so nothing found here
                # is a violation
                scheduler = S.Scheduler(streams.get("sched"), case["policy"], clock=clock,
                                        forced=forced, max_steps=20000,
                                        line_trace=("odml/terminology.py", "odml/templates.py"))
            else:
                scheduler = S.Scheduler(streams.get("sched"), case["policy"], clock=clock,
                                        forced=forced)
            scheduler.start_fault = case["scenario"].get("start_fault")
            scheduler.fault_fired = False
        world = World(case, env, scheduler)
        world.setup_files()
        hist["cache_before"] = world.cache_snapshot()
        U = Universe()
        objs = {}          # id(obj) -> token

        def token(obj):
            if obj is None:
                return None
            key = id(obj)
            if key not in objs:
                objs[key] = (len(objs), obj)
            return objs[key][0]

        def summarize(obj):
            if obj is None:
                return {"none": True}
            if kind_of(obj) == "other":
                return {"other": type(obj).__name__}
            import json
            tree = json.loads(jdump(doc_tree(obj)).replace(env.sandbox, "$SANDBOX"))
            return {"token": token(obj), "tree": tree}

        harness_doc = odml.Document(author="c18")
        n_inc = [0]
        rep_secs = {}

        def do(op):
            name = op[0]
            url = world.urls.get(op[1]) if len(op) > 1 and op[1] in world.urls else None
            if name == "deferred_load":
                world.term.deferred_load(url)
                return None
            if name == "load":
                return summarize(world.term.load(url))
            if name == "refresh":
                # like clock jumps, a refresh is issued at a quiescent point only: whether an
                # in-flight loader started before or after it would legitimately depend on the
                # schedule (the statement only says 'the same object until refresh')
                if scheduler is not None:
                    scheduler.quiesce()
                world.term.refresh(url)
                return None
            if name == "include":
                n_inc[0] += 1
                sec = odml.Section(name="inc%d" % n_inc[0], type="t", parent=harness_doc)
                sec.include = url + ("#" + op[2] if op[2] else "")
                return {"children": sorted([s.name for s in sec.sections] +
                                           [p.name for p in sec.properties])}
            if name == "repository":
                # one harness Section per resource, asked again by later calls: what it answers
                # must follow the terminology that is loaded now (e.g. after a refresh)
                sec = rep_secs.get(op[1])
                if sec is None:
                    n_inc[0] += 1
                    sec = rep_secs[op[1]] = odml.Section(name="rep%d" % n_inc[0],
                                                         type="type_%s" % op[1], parent=harness_doc)
                    sec.repository = url
                eq = sec.get_terminology_equivalent()
                one = eq if (eq is None or kind_of(eq) == "sec") else (list(eq) or [None])[0]
                own = None
                if one is not None:
                    own = sorted(str(v) for p in one.properties if p.name == "p_%s" % op[1]
                                 for v in p.values)
                return {"equivalent": None if eq is None else
                        (eq.name if kind_of(eq) == "sec" else [e.name for e in eq]), "own": own}
            if name in ("t_deferred_load", "t_load", "t2_deferred_load", "t2_load"):
                import odml.templates as TP
                handler = world.__dict__.setdefault("templ2" if name.startswith("t2") else "templ",
                                                    TP.TemplateHandler())
                if name.endswith("deferred_load"):
                    handler.deferred_load(url)
                    return None
                return summarize(handler.load(url))
            if name == "quiesce":
                if scheduler is not None:
                    scheduler.quiesce()
                return None
            if name == "advance":
                if scheduler is not None:
                    scheduler.quiesce()
                clock.advance(2 * 86400)
                return None
            if name == "wipe_cache":
                # an event of the environment, at quiescence: every cache file is gone (the
                # directory stays); whatever is loaded stays loaded, the next fetch starts afresh
                if scheduler is not None:
                    scheduler.quiesce()
                import tempfile as _tf
                cdir = os.path.join(_tf.gettempdir(), "odml.cache")
                if os.path.isdir(cdir):
                    for fn in sorted(os.listdir(cdir)):
                        fp = os.path.join(cdir, fn)
                        if os.path.isfile(fp):
                            os.remove(fp)
                return None
            raise ValueError(name)

        with loader_seams(world, scheduler):
            if scheduler is not None:
                scheduler.trace_this_thread(True)
            try:
                try:
                    for op in case["script"]:
                        try:
                            out = ("ret", do(op))
                        except (S.SimDeadlock, S.SimStepCap, S.SimKilled):
                            raise
                        except Exception as exc:
                            out = ("exc", type(exc).__name__, str(exc)[:160])
                        rec = {"op": op, "outcome": out}
                        if scheduler is not None and scheduler.fault_fired and not hist.get("fault_call_seen"):
                            hist["fault_call_seen"] = True
                            rec["faulted"] = True       # the injected fault fired during this call
                        hist["calls"].append(rec)
                    if scheduler is not None:
                        scheduler.quiesce()
                    # at quiescence: loading must hold no live thread; one extra load per URL
                    try:
                        loading = type(world.term).loading
                        alive = [u for u, t in dict.items(loading) if t.is_alive()]
                        hist["loader_alive_at_quiescence"] = bool(alive)
                    except Exception:
                        pass
                    for n in sorted(world.urls):
                        for attempt in (0, 1):
                            try:
                                res = ("ret", summarize(world.term.load(world.urls[n])))
                            except (S.SimDeadlock, S.SimStepCap, S.SimKilled):
                                raise
                            except Exception as exc:
                                res = ("exc", type(exc).__name__, str(exc)[:160])
                                if attempt == 0 and "start new thread" in str(exc):
                                    continue    # the injected fault fired only now: ask once more
                            break
                        hist["final_loads"][n] = res
                    # ... and one per URL a template handler was asked for during the script
                    hist["final_t_loads"] = {}
                    for handler_name, opname in (("templ", "t_load"), ("templ2", "t2_load")):
                        handler = world.__dict__.get(handler_name)
                        asked = sorted(set(c["op"][1] for c in hist["calls"] if c["op"][0] == opname))
                        for n in asked:
                            if handler is None or n not in world.urls:
                                continue
                            try:
                                res = ("ret", summarize(handler.load(world.urls[n])))
                            except (S.SimDeadlock, S.SimStepCap, S.SimKilled):
                                raise
                            except Exception as exc:
                                res = ("exc", type(exc).__name__, str(exc)[:160])
                            hist["final_t_loads"]["%s %s" % (opname, n)] = res
                    if scheduler is not None:
                        scheduler.quiesce()
                except S.SimDeadlock as exc:
                    hist["deadlock"] = str(exc)
                except S.SimStepCap:
                    hist["step_cap"] = True
            finally:
                if scheduler is not None:
                    scheduler.trace_this_thread(False)
                    hist["leaked"] = scheduler.teardown()
        hist["cache_after"] = world.cache_snapshot()
        hist["failed_fetch"] = sorted(n for n, u in world.urls.items() if u in world.failed_fetch)
        hist["fetches"] = len(world.fetches)
        if scheduler is not None:
            hist["schedule"] = scheduler.schedule
            hist["events"] = scheduler.events
            hist["probes"] = dict(scheduler.probes)
            hist["steps"] = scheduler.steps
            hist["preemptions"] = scheduler.preemptions
            hist["diverged"] = scheduler.diverged
            hist["max_live"] = scheduler.max_live
            hist["loader_exceptions"] = [type(t.exc).__name__ for t in scheduler.tasks
                                         if t.exc is not None]
        hist["sim_time"] = clock.elapsed
        hist["sandbox"] = env.sandbox
    return hist


# ---------------------------------------------------------------------------------- reference model
CACHE_AGE_S = 86400


class Model(object):
    """A small executable reference model of the loader under the sequential schedule: two result
    tables (terminologies, templates), one cache directory shared by both (entry = content tag +
    mtime), the sources, the clock.  It predicts, for every load / t_load of a script, None or the
    set of resource versions the returned document must be made of.  Independent of the library:
    it is written from the statement ('a fully resolved document ..., or None if it cannot be
    fetched or parsed', cache warm / stale / refresh) and from the scenario the harness built."""

    def __init__(self, case):
        scen = case["scenario"]
        self.nodes = scen["nodes"]
        self.now = seams.EPOCH0
        self.cache = {}
        self.src = {}
        self.T = {}
        self.TP = {}
        self.TP2 = {}       # a second handler: a loaded table of its own
        self.own = {}        # resource -> [its own version marker] as loaded now, None if no document
        self.reload = False
        for n, node in self.nodes.items():
            state = scen["cache"][n]
            kind = node["kind"]
            gone = "source-missing" in state
            if node["scheme"] == "file":
                present = (kind == "ok" or kind.startswith("bad:")) and not gone
                if not present:
                    self.src[n] = None
                elif kind == "ok":
                    self.src[n] = ("ok", "-new" if state == "warm+source-changed" else "")
                else:
                    self.src[n] = (kind[4:],)                    # text / version1 / empty
            else:
                if gone or kind in ("missing", "simfault:urlerror", "simfault:read-raises"):
                    self.src[n] = None
                elif kind in ("simfault:notxml", "simfault:nonutf8"):
                    self.src[n] = (kind[9:],)          # fetched, cached, does not parse
                else:
                    self.src[n] = ("ok", "")
            if state != "empty" and kind == "ok":
                age = 3600 if state.startswith("warm") else 2 * 86400
                self.cache[n] = (("ok", "" if state.startswith("warm") else "-old"), self.now - age)

    def cache_load(self, n, reload):
        ent = self.cache.get(n)
        if ent is None or reload or ent[1] < self.now - CACHE_AGE_S:
            if self.src.get(n) is None:
                return None                  # failed fetch: nothing cached, nothing overwritten
            ent = (self.src[n], self.now)
            self.cache[n] = ent
        return ent[0]

    def _resolve_includes(self, n, own):
        marks = set([own])
        for m in self.nodes[n]["includes"]:
            sub = self.term(m)
            if sub is None:
                return None
            marks |= sub
        return marks

    def term(self, n):
        """Terminologies.load under the sequential schedule."""
        if n not in self.nodes:
            return None
        if n in self.T:
            return self.T[n]
        tag = self.cache_load(n, self.reload)
        if tag is None:
            return None                      # not fetched: nothing is remembered
        doc = None
        if tag[0] == "ok":
            doc = self._resolve_includes(n, n + tag[1])
        self.T[n] = doc                      # parsed or not: the answer stays until refresh
        self.own[n] = None if (doc is None or self.nodes[n].get("sectionless")) else [n + tag[1]]
        return doc

    def templ(self, n, table=None):
        """TemplateHandler.load: own table, shared cache directory, includes through terminologies."""
        if n not in self.nodes:
            return None
        TP = self.TP if table is None else table
        if n in TP:
            return TP[n]
        tag = self.cache_load(n, False)
        if tag is None or tag[0] != "ok":
            return None
        doc = self._resolve_includes(n, n + tag[1])
        if doc is not None:
            TP[n] = doc
        return doc

    def run(self, script):
        """Expected outcome per call: None (no expectation), 'none', or a frozenset of markers."""
        out = []
        for op in script:
            name = op[0]
            n = op[1] if len(op) > 1 else None
            exp = None
            if name in ("load", "deferred_load", "include", "repository"):
                res = self.term(n)
                if name == "load":
                    exp = "none" if res is None else frozenset(res)
                elif name == "repository" and n in self.nodes:
                    exp = ("own", self.own.get(n) if res is not None else None)
            elif name in ("t_load", "t_deferred_load", "t2_load", "t2_deferred_load"):
                res = self.templ(n, self.TP2 if name.startswith("t2") else None)
                if name.endswith("_load") and "deferred" not in name:
                    exp = "none" if res is None else frozenset(res)
            elif name == "refresh":
                self.reload = True
                self.T.clear()
                self.own.clear()
                self.term(n)
                self.reload = False
            elif name == "advance":
                self.now += 2 * 86400
            elif name == "wipe_cache":
                self.cache.clear()
            out.append(exp)
        final = {}
        for n in sorted(self.nodes):
            res = self.term(n)
            final[n] = "none" if res is None else frozenset(res)
        return out, final


def markers_of(summary):
    """Resource versions a returned document is made of: the values of its p_<name> Properties."""
    if summary is None or "none" in summary:
        return "none"
    marks = set()
    author = summary["tree"].get("author")
    if author and not summary["tree"].get("secs"):
        marks.add(author[1])      # a resource without Sections names its version in the author

    def walk(t):
        nm = t.get("name")
        if t.get("k") == "prop" and nm and str(nm[1]).startswith("p_"):
            for v in t.get("values", []):
                marks.add(v[1])
        for c in t.get("secs", []) + t.get("props", []):
            walk(c)
    walk(summary["tree"])
    return frozenset(marks)


def judge_model(case, ref):
    """The sequential reference execution against the model (schedule independent)."""
    shape = case["scenario"]["shape"]
    exp_calls, exp_final = Model(case).run(case["script"])

    def vio(call, what, msg, step=0):
        labels = [shape, what]
        return {"monitor": "load.matches-model", "labels": labels, "message": msg, "step": step,
                "signature": signature("load.matches-model", call, labels)}

    def describe(x):
        return "None" if x == "none" else "a document made of %s" % sorted(x)
    for i, (call, exp) in enumerate(zip(ref["calls"], exp_calls)):
        if exp is None or call["outcome"][0] != "ret":
            continue
        if isinstance(exp, tuple) and exp[0] == "own":
            got_own = (call["outcome"][1] or {}).get("own")
            if got_own != exp[1]:
                return vio("repository", "content", "the terminology equivalent asked for %s is made of "
                           "%r, the model expects %r" % (call["op"][1], got_own, exp[1]), i)
            continue
        got = markers_of(call["outcome"][1])
        if got != exp:
            what = "none-mismatch" if "none" in (got, exp) else "content"
            return vio(call["op"][0], what, "%s(%s) returned %s, the model expects %s" %
                       (call["op"][0], call["op"][1], describe(got), describe(exp)), i)
    for n, res in sorted(ref["final_loads"].items()):
        if res[0] != "ret":
            continue
        got = markers_of(res[1])
        if got != exp_final[n]:
            what = "none-mismatch" if "none" in (got, exp_final[n]) else "content"
            return vio("load", what, "load(%s) at quiescence returned %s, the model expects %s" %
                       (n, describe(got), describe(exp_final[n])))
    return None


NO_RAISE_CALLS = ("load", "deferred_load", "refresh", "repository", "t_load", "t_deferred_load",
                  "t2_load", "t2_deferred_load")


def judge(case, hist, ref, scheduled):
    """Clauses 1-6 over the recorded history.  ref: the sequential reference history (None when the
    history judged *is* the reference)."""
    shape = case["scenario"]["shape"]

    def sig(monitor, call, what):
        probes = sorted(k for k in hist["probes"] if k in
                        ("join_before_start", "popped_between_check_and_index"))
        labels = [shape, what] + probes
        return {"monitor": monitor, "labels": labels,
                "signature": signature(monitor, call, labels)}
    # 2. termination
    if hist["deadlock"]:
        return dict(sig("load.terminates", "run", "deadlock"),
                    message="deadlock: %s" % hist["deadlock"])
    if hist["step_cap"]:
        return dict(sig("load.terminates", "run", "step-cap"),
                    message="the run exceeded the step cap")
    # 1. no call raises
    for i, call in enumerate(hist["calls"]):
        name = call["op"][0]
        out = call["outcome"]
        if out[0] == "exc":
            if call.get("faulted") and out[1] == "RuntimeError" and "start new thread" in out[2]:
                continue        # the call in which the injected fault fired may fail with it
            if name in NO_RAISE_CALLS:
                return dict(sig("load.no-raise", name, out[1]), step=i,
                            message="%s(%s) raised %s: %s" % (name, call["op"][1], out[1], out[2]))
            if name == "include" and case["scenario"].get("start_fault"):
                # after an injected thread-start fault an include may fail like any include of a
                # resource that cannot be loaded; what it must not meet is the wreck of the fault
                if out[1] == "RuntimeError":
                    return dict(sig("load.no-raise", name, out[1]), step=i,
                                message="include raised %s: %s" % (out[1], out[2]))
                continue
            if name == "include" and ref is not None:
                rout = ref["calls"][i]["outcome"]
                if rout[0] != "exc" or rout[1] != out[1]:
                    return dict(sig("load.no-raise", name, out[1]), step=i,
                                message="include raised %s, the sequential reference %s" %
                                (out[1], rout[1] if rout[0] == "exc" else "returned"))
        elif name == "include" and ref is not None and ref["calls"][i]["outcome"][0] == "exc" \
                and not case["scenario"].get("start_fault"):
            return dict(sig("load.equals-reference", name, "returned"), step=i,
                        message="include returned, the sequential reference raised %s" %
                        ref["calls"][i]["outcome"][1])
    for n, res in sorted(hist["final_loads"].items()):
        if res[0] == "exc":
            return dict(sig("load.no-raise", "load", res[1]),
                        message="load(%s) at quiescence raised %s: %s" % (n, res[1], res[2]))
    # 3. results equal the reference (not after an injected thread-start fault: a loader that
    #    could not be started legitimately makes a load answer None, and that answer stays)
    if ref is not None and not ref.get("invalid") and not case["scenario"].get("start_fault"):
        for i, call in enumerate(hist["calls"]):
            name = call["op"][0]
            out, rout = call["outcome"], ref["calls"][i]["outcome"]
            if out[0] != "ret" or rout[0] != "ret":
                continue
            if name in ("load", "t_load", "t2_load"):
                a, b = out[1], rout[1]
                if ("none" in a) != ("none" in b):
                    return dict(sig("load.equals-reference", name, "none-mismatch"), step=i,
                                message="%s(%s) returned %s, the sequential reference %s" %
                                (name, call["op"][1], "None" if "none" in a else "a document",
                                 "None" if "none" in b else "a document"))
                if "tree" in a and a["tree"] != b.get("tree"):
                    return dict(sig("load.equals-reference", name, "content"), step=i,
                                message="%s(%s) returned a document that differs from the "
                                "sequential reference (not fully resolved?)" % (name, call["op"][1]))
            elif name in ("include", "repository") and out[1] != rout[1]:
                return dict(sig("load.equals-reference", name, "content"), step=i,
                            message="%s(%s): %r, sequential reference %r" %
                            (name, call["op"][1], out[1], rout[1]))
        for n, res in sorted(hist["final_loads"].items()):
            rres = ref["final_loads"].get(n)
            if rres is None or res[0] != "ret" or rres[0] != "ret":
                continue
            if ("none" in res[1]) != ("none" in rres[1]):
                return dict(sig("load.equals-reference", "load", "none-mismatch"),
                            message="load(%s) at quiescence: %s, reference %s" %
                            (n, "None" if "none" in res[1] else "document",
                             "None" if "none" in rres[1] else "document"))
            if "tree" in res[1] and res[1]["tree"] != rres[1].get("tree"):
                return dict(sig("load.equals-reference", "load", "content"),
                            message="load(%s) at quiescence differs from the sequential reference" % n)
    # 4. same cached object between refreshes
    epoch = 0
    seen = {}
    for i, call in enumerate(hist["calls"]):
        name = call["op"][0]
        if name == "refresh":
            epoch += 1
        if name in ("load", "t_load", "t2_load") and call["outcome"][0] == "ret" and \
                "token" in call["outcome"][1]:
            # a template handler has a table of its own and is not touched by refresh
            key = (epoch, call["op"][1]) if name == "load" else (name[:2], call["op"][1])
            tok = call["outcome"][1]["token"]
            if key in seen and seen[key] != tok:
                return dict(sig("load.same-object", name, "other-object"), step=i,
                            message="%s(%s) returned another object than an earlier %s "
                            "without a refresh in between" % (name, call["op"][1], name))
            seen[key] = tok
    for n, res in sorted(hist["final_loads"].items()):
        if res[0] == "ret" and "token" in res[1]:
            key = (epoch, n)
            if key in seen and seen[key] != res[1]["token"]:
                return dict(sig("load.same-object", "load", "other-object"),
                            message="load(%s) at quiescence returned another object than before" % n)
    for what, res in sorted((hist.get("final_t_loads") or {}).items()):
        opname, n = what.split(" ", 1)
        if res[0] == "ret" and "token" in res[1]:
            key = (opname[:2], n)
            if key in seen and seen[key] != res[1]["token"]:
                return dict(sig("load.same-object", opname, "other-object"),
                            message="%s(%s) at quiescence returned another object than an earlier %s" %
                            (opname, n, opname))
    # 5. failed fetches leave the cache untouched
    wiped = any(op and op[0] == "wipe_cache" for op in case.get("script", []))
    for n in hist["failed_fetch"]:
        if wiped and hist["cache_after"].get(n) is None:
            continue        # the environment emptied the cache directory during the run
        if hist["cache_before"].get(n) != hist["cache_after"].get(n):
            return dict(sig("load.cache-untouched", "fetch", "cache-changed"),
                        message="the fetch of %s failed but its cache file changed: %r -> %r" %
                        (n, hist["cache_before"].get(n), hist["cache_after"].get(n)))
    # 6. no live loader registered at quiescence
    if hist["loader_alive_at_quiescence"]:
        return dict(sig("load.no-live-loader", "run", "alive"),
                    message="loading still holds a live thread at quiescence")
    if hist["leaked"]:
        return dict(sig("load.terminates", "run", "leaked-thread"),
                    message="loader threads did not end: %r" % hist["leaked"])
    return None


def run_case(case, forced=None):
    res = Result(case)
    ref = run_script(case, "sequential")
    vio = judge(case, ref, None, False)
    if vio is None:
        vio = judge_model(case, ref)
    ref_invalid = vio is not None
    if vio is not None:
        vio["labels"] = vio["labels"] + ["sequential"]
        vio["signature"] = signature(vio["monitor"], vio["signature"].split("|")[1], vio["labels"])
        hist = ref
        case["schedule"] = []
    else:
        hist = run_script(case, "scheduled", forced=forced if forced is not None else case.get("schedule"))
        case["schedule"] = list(hist["schedule"])
        vio = judge(case, hist, ref, True)
        if case.get("extended"):
            res.stats["extended_runs"] = 1
            if vio is not None:
                # finer than the stated granularity: an observation for the evidence, never an alarm
                res.stats["extended_observations"] = {vio["signature"]: 1}
                vio = None
    shape = case["scenario"]["shape"]
    res.stats["steps"] = hist["steps"]
    res.stats["sim_time_s"] = hist["sim_time"]
    res.stats["probes"] = dict(hist["probes"])
    res.stats["preemptions"] = hist["preemptions"]
    res.count("labels", "graph:" + shape)
    res.count("labels", "policy:" + case["policy"]["kind"])
    for n, st in case["scenario"]["cache"].items():
        res.count("labels", "cache:" + st)
    for n in hist["failed_fetch"]:
        res.count("labels", "fetch-failed")
        if case["scenario"]["cache"].get(n, "").startswith("warm"):
            res.stats["probes"]["fetch_failed_cache_warm"] = \
                res.stats["probes"].get("fetch_failed_cache_warm", 0) + 1
    for exc_name in hist["loader_exceptions"]:
        res.count("labels", "loader-died:" + exc_name)
    for call in hist["calls"]:
        res.count("ops", call["op"][0])
        if call["outcome"][0] == "exc":
            res.count("refusals", "%s|%s|%s" % (call["op"][0], shape, call["outcome"][1]))
    sbx = hist.get("sandbox", "")
    ev = [(t, k, d) for t, k, d in hist["events"]]
    res.log.append(jdump({"scenario": case["scenario"], "script": case["script"],
                          "policy": case["policy"]}))
    res.log.append(jdump({"schedule": hist["schedule"]}))
    res.log.append(jdump({"events": ev}).replace(sbx, "$SANDBOX"))
    res.log.append(jdump({"calls": hist["calls"], "final": hist["final_loads"]}).replace(sbx, "$SANDBOX"))
    if hist["preemptions"] > 0:
        res.fault_shapes.add(seeds.H("sched", [(t, k) for t, k, d in hist["events"]]))
    if hist["diverged"]:
        res.stats["forced_schedule_diverged"] = 1
    if vio:
        res.violation = {"monitor": vio["monitor"], "message": vio["message"].replace(sbx, "$SANDBOX"),
                         "step": vio.get("step", 0), "op": {"op": "script"}, "labels": vio["labels"],
                         "outcome": ["ret"], "signature": vio["signature"]}
    return res


def explore(run_seed, tier, known=None):
    return run_case(generate(run_seed))


def execute(case, known=None):
    return run_case(case, forced=case.get("schedule"))


def shrink(case, sig):
    """Script first (ddmin), then the number of context switches of the schedule."""
    import copy
    from simkit.shrink import ddmin
    best = copy.deepcopy(case)

    def fails(cand):
        try:
            r = run_case(cand, forced=cand.get("schedule"))
        except Exception:
            return None
        if r.violation is not None and r.violation["signature"] == sig:
            return r
        return None

    def script_fails(script):
        cand = copy.deepcopy(best)
        cand["script"] = script
        cand["schedule"] = None          # regenerate the schedule from the seed
        return fails(cand) is not None

    r0 = fails(best)
    if r0 is None:
        return case
    small = ddmin(best["script"], script_fails, max_tests=60)
    cand = copy.deepcopy(best)
    cand["script"] = small
    cand["schedule"] = None
    r = fails(cand)
    if r is not None:
        best = r.case
    else:
        best = r0.case
    # fewer context switches: replace a switch by 'continue the current task'
    tries = 0
    i = 1
    while best.get("schedule") and i < len(best["schedule"]) and tries < 80:
        sch = best["schedule"]
        if sch[i] != sch[i - 1]:
            cand = copy.deepcopy(best)
            cand["schedule"] = sch[:i] + [sch[i - 1]] + sch[i + 1:]
            tries += 1
            r = fails(cand)
            if r is not None and len([1 for a, b in zip(r.case["schedule"], r.case["schedule"][1:])
                                      if a != b]) < len([1 for a, b in zip(sch, sch[1:]) if a != b]):
                best = r.case
                continue
        i += 1
    return best
