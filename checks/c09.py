"""C09 - cardinalities: normal form, exact violation reports, never enforced, persisted."""
from simkit import sessioncheck, seams, seeds
from simkit.gen import Profile
from simkit.monitors import mon_card, card_normal_form, card_pair, clearly_valid_card
from simkit.session import Result, jdump, signature
from simkit.universe import canon

PROPERTY = "C09"
ENGINE = "session"
LEVEL = "fault_enumeration"
BUDGET = {"quick": (80000, 60), "thorough": (1500000, 540)}
RULE = ("grid, enumerated completely in both tiers: settings {None, ints -1..4, (a,b) and [a,b] with "
        "a,b in {None,-1..4}, strings, floats, 1- and 3-tuples} x child counts 0..5 x {values, "
        "properties, sections} x previous setting {unset, (1,3)} x route {attribute, set_*_cardinality}; "
        "then seeded histories of valid-by-construction adds/removes, good and bad cardinality "
        "assignments and restarts through XML/JSON/YAML (file and string). distinct = distinct grid "
        "cells plus distinct universe shapes reached after a fault-labelled op")
COMPONENTS = sessioncheck.COMPONENTS
TECHNIQUE = ("fault grid enumerated (invalid settings are the faults) + SESSION seeded histories with "
             "restart (save, drop memory, reload) as the crash; cardinality monitors after every op")
LEVEL_TEXT = ("The finite settings grid the quantifier asks for is enumerated completely (every cell: "
              "normal form or ValueError with the previous setting kept, a clearly valid pair accepted "
              "and stored as given; warning reported iff the count is outside the range, per object and "
              "in one validation of each whole tree), then seeded editing histories change the child counts "
              "through every route using only operations nothing but a cardinality could refuse, "
              "interleaved with failed re-assignments and restarts through the three file formats.")
LEVEL_NOTE = ("bool members are not generated (True is an int in Python; the property speaks of "
              "integers); (n, 0) is accepted by the library as 'no maximum' and is judged only for "
              "normal form of what is stored; restart compares cardinalities only.")
DESIGN_REF = "DESIGN.md 4 (C09)"
ASSUMPTIONS = ["invalid = negative member, non-int member, wrong length, bare string / non-zero float, "
               "min > max with both positive: these must raise ValueError",
               "falsy settings (0, '', [], 0.0) reset the cardinality, as documented"]

PROFILES = {
    "c09-history": Profile("c09-history", {
        "new_doc": 4, "new_sec": 6, "new_prop": 6, "add_valid": 30, "remove_valid": 14,
        "set_card": 22, "restart": 8, "validate": 2, "reorder": 1, "rename": 1, "clone": 5,
        "set_link": 3, "clean": 1, "finalize": 1, "deep_chain": 1, "linked_copy": 5,
    }, fault_share=0.3, detached_share=0.3, backends=("xml", "json", "yaml"), max_objs=90),
}
MONITORS = [mon_card]

_explore, _execute = sessioncheck.make(PROFILES, MONITORS, PROPERTY)

# ---------------------------------------------------------------------------------- grid
MEMBERS = [None, -1, 0, 1, 2, 3, 4]


def settings():
    out = [None] + [{"int": i} for i in range(-1, 5)]
    for a in MEMBERS:
        for b in MEMBERS:
            out.append({"tuple": [a, b]})
    for a, b in [(None, 2), (1, None), (1, 3), (2, 2), (3, 1), (-1, 2), (0, 0), (None, None)]:
        out.append({"list": [a, b]})
    out += ["1", "(1,2)", "", {"float": 1.5}, {"float": 0.0}, {"tuple": [1]}, {"tuple": [1, 2, 3]},
            {"tuple": []}, {"tuple": [1.5, 2]}, {"tuple": ["1", "2"]}, {"tuple": [1, "a"]}]
    return out


def grid(tier):
    cases = []
    for s_i, setting in enumerate(settings()):
        for count in range(6):
            for kind in ("val", "prop", "sec"):
                for prev in (None, (1, 3)):
                    routes = ["attr"]
                    if isinstance(setting, dict) and "tuple" in setting and len(setting["tuple"]) == 2:
                        routes.append("setter")
                    for route in routes:
                        cases.append({"format": 1, "engine": "cardgrid", "property": PROPERTY,
                                      "run_seed": seeds.H("grid", s_i, count, kind, prev, route),
                                      "cell": {"setting": setting, "count": count, "kind": kind,
                                               "prev": prev, "route": route}})
    return cases


def _decode(setting):
    if isinstance(setting, dict):
        if "int" in setting:
            return setting["int"]
        if "float" in setting:
            return float(setting["float"])
        if "tuple" in setting:
            return tuple(setting["tuple"])
        if "list" in setting:
            return list(setting["list"])
    return setting


def clearly_invalid(val):
    """Settings the statement rules out without room for interpretation."""
    if val is None:
        return False
    if isinstance(val, bool):
        return False
    if isinstance(val, int):
        return val < 0
    if isinstance(val, float):
        return val != 0.0
    if isinstance(val, str):
        return val != ""
    if isinstance(val, (tuple, list)):
        if len(val) == 0:
            return False
        if len(val) != 2:
            return True
        for e in val:
            if e is not None and (isinstance(e, bool) or not isinstance(e, int)):
                return True
            if isinstance(e, int) and e < 0:
                return True
        lo, hi = val
        if isinstance(lo, int) and isinstance(hi, int) and lo > hi > 0:
            return True
    return False


def run_cell(case):
    import odml
    from odml.validation import Validation
    cell = case["cell"]
    res = Result(case)
    streams = seeds.Streams(case["run_seed"])
    with seams.installed(streams):
        kind, count = cell["kind"], cell["count"]
        if kind == "val":
            obj = odml.Property(name="p", dtype="int", values=list(range(count)))
            attr, setter, issue = "val_cardinality", "set_values_cardinality", \
                "property_values_cardinality"
        else:
            obj = odml.Section(name="s", type="t")
            for i in range(count):
                if kind == "prop":
                    odml.Property(name="p%d" % i, values=i, parent=obj)
                else:
                    odml.Section(name="s%d" % i, type="t", parent=obj)
            attr = "prop_cardinality" if kind == "prop" else "sec_cardinality"
            setter = "set_properties_cardinality" if kind == "prop" else "set_sections_cardinality"
            issue = "section_properties_cardinality" if kind == "prop" else \
                "section_sections_cardinality"
        if cell["prev"] is not None:
            setattr(obj, attr, tuple(cell["prev"]))
        before = getattr(obj, attr)
        val = _decode(cell["setting"])
        labels = ["invalid"] if clearly_invalid(val) else []
        try:
            if cell["route"] == "setter":
                getattr(obj, setter)(val[0], val[1])
            else:
                setattr(obj, attr, val)
            outcome = ("ret", None)
        except Exception as exc:
            outcome = ("exc", type(exc).__name__, str(exc)[:120])
        after = getattr(obj, attr)
        vio = None
        pair = clearly_valid_card(val)
        if pair is not None and outcome[0] == "exc":
            vio = ("card.accepts-valid", "assignment of the valid cardinality %r raised %s: %s" %
                   (val, outcome[1], outcome[2]))
        elif pair is not None and after != pair:
            vio = ("card.accepts-valid", "assignment of the valid cardinality %r stored %r" %
                   (val, after))
        elif outcome[0] == "exc":
            if outcome[1] != "ValueError":
                vio = ("card.refusal-keeps", "assignment of %r raised %s: %s" %
                       (val, outcome[1], outcome[2]))
            elif after != before:
                vio = ("card.refusal-keeps", "refused assignment of %r changed the setting %r -> %r"
                       % (val, before, after))
        else:
            if not card_normal_form(canon(after)):
                vio = ("card.form", "assignment of %r stored %r" % (val, after))
            elif labels:
                vio = ("card.rejects-invalid", "assignment of %r was accepted, stored %r" % (val, after))
        if vio is None:
            lo, hi = card_pair(canon(after))
            outside = (lo is not None and count < lo) or (hi is not None and count > hi)
            errs = [e for e in Validation(obj).errors
                    if getattr(e.validation_id, "name", "") == issue and e.obj is obj]
            if outside and len(errs) != 1:
                vio = ("card.report-exact", "%s=%r count=%d: %d issues reported" %
                       (attr, after, count, len(errs)))
            elif not outside and errs:
                vio = ("card.report-exact", "%s=%r count=%d: issue reported although inside" %
                       (attr, after, count))
            elif errs and errs[0].rank != "warning":
                vio = ("card.report-exact", "issue has rank %r" % errs[0].rank)
        res.log.append(jdump({"cell": cell, "outcome": list(outcome[:2]), "stored": canon(after)}))
        res.stats["steps"] = 1
        res.count("labels", "grid:" + ("invalid" if labels else "valid-or-open"))
        res.count("refusals", "grid|%s" % (outcome[1] if outcome[0] == "exc" else "accepted"))
        res.fault_shapes.add(seeds.H("cell", jdump(cell)))
        if vio:
            res.violation = {"monitor": vio[0], "message": vio[1], "step": 0,
                             "op": {"op": "cell"}, "labels": labels,
                             "outcome": list(outcome[:2]),
                             "signature": signature(vio[0], "cell:%s:%s" % (cell["kind"], cell["route"]),
                                                    labels)}
    return res


def explore(run_seed, tier, known=None):
    return _explore(run_seed, tier, known)


def execute(case, known=None):
    if case.get("engine") == "cardgrid":
        return run_cell(case)
    return _execute(case, known)
