"""C05 - Property values always conform to the Property's dtype, in normal form."""
from simkit.gen import Profile
from simkit.monitors import mon_values
from simkit import sessioncheck

PROPERTY = "C05"
ENGINE = "session"
LEVEL = "exploration"
BUDGET = {"quick": (100000, 60), "thorough": (2500000, 540)}
RULE = ("seeded value-editing histories (constructor, values=, dtype=, append/extend/insert with "
        "strict on and off, item assignment, remove, merge, clone) with inputs from a per-dtype "
        "shape table (native, text form, near miss, None/empty, mixed lists, bracket strings, tuple "
        "syntax); typed/normal-form/refusal monitors after every op. distinct = distinct "
        "(op, labels, outcome class, dtype, value type vector) tuples")
COMPONENTS = sessioncheck.COMPONENTS
TECHNIQUE = 'SESSION: seeded search over value-editing histories with a per-dtype input shape table; typed/normal-form/refusal monitors after every op'
LEVEL_TEXT = 'Seeded exploration of value-editing histories: every dtype, inputs from a shape table (native, text form, near miss, empty, mixed, bracketed, tuple syntax), all value operations with strict on and off; after every operation every stored value is checked against the Python type of the dtype and for normal form, refusals must be ValueError and leave values and dtype untouched.'
LEVEL_NOTE = "The simulated clock makes the 'empty text means now' conversion deterministic; NaN and dtype aliases ('INT', 'str') are not generated; a dtype change to an n-tuple type may expand one bracketed string into several tuples (judged only for loss)."
DESIGN_REF = 'DESIGN.md 4 (C05)'
ASSUMPTIONS = ["dtype names: canonical names and DType members only (aliases like 'INT'/'str' are not "
               "settled by the property)", "NaN is not generated (nan != nan)",
               "simulated clock: 'empty text means now' is deterministic"]

PROFILES = {
    "c05-values": Profile("c05-values", {
        "new_sec": 2, "new_prop": 14, "create_property": 6, "set_values": 16, "set_dtype": 12,
        "v_append": 10, "v_extend": 10, "v_insert": 8, "v_setitem": 8, "v_remove": 5,
        "reassign_values": 5, "merge": 6, "clone": 4, "advance": 1,
    }, fault_share=0.4, detached_share=0.6, wfilter_share=0.05),
}
MONITORS = [mon_values]

explore, execute = sessioncheck.make(PROFILES, MONITORS, PROPERTY)


def nontrivial_keys(res):
    return res.extra.get("value_keys", res.fault_shapes)
