"""C19 - validation observes only: no side effects, repeatable, custom rules stay private."""
import json
import re
import os
import subprocess
import sys

from simkit.gen import Profile
from simkit.monitors import mon_valid, valid_prelude
from simkit import sessioncheck
from simkit.known import VERIF

PROPERTY = "C19"
ENGINE = "session"
LEVEL = "exploration"
BUDGET = {"quick": (40000, 60), "thorough": (800000, 540)}
RULE = ("seeded histories of default validations (Document / Section / Property), custom validations "
        "(reset=True + marker rule + run_validation/report), object creation, cardinality changes, "
        "saves, loads and restarts on documents incl. deliberately invalid ones; purity (empty "
        "footprint), repeatability (same validation three times), registry (fixed probe document + "
        "handler fingerprint against the import-time registry) after every op; every second run is "
        "re-validated by two other interpreters with different hash seeds; store files are damaged "
        "so that loads fail inside the reader. distinct = distinct universe shapes at which a "
        "validation op ran")
COMPONENTS = dict(sessioncheck.COMPONENTS)
COMPONENTS["real"] = COMPONENTS["real"] + ["second and third interpreter process (sampled runs)"]
TECHNIQUE = ("SESSION: seeded histories interleaving validations with edits, saves, loads; frame "
             "monitor with empty footprint, registry probe against the import-time rule set after every "
             "op, cross-process re-validation under other hash seeds; history differential (validations left "
             "out of a replay must not change what the remaining ones report)")
LEVEL_TEXT = ("Seeded exploration of histories in which validations are interleaved with every kind of "
              "operation that runs the library's internal custom validations (constructors, "
              "cardinality setters, save, load). After every op the default rule set is probed through "
              "the public API on a fixed document; validation ops must leave the whole universe "
              "snapshot-identical, report the same multiset when repeated, and keep custom rules "
              "private; Document.validate() and Validation(doc) must agree, and the report text of a kept "
              "Validation asked again must equal a fresh one. Every second run is re-validated in two "
              "other processes (long-lived helpers).")
LEVEL_NOTE = ("Validation.register_handler - the documented way to change the default rules - is not "
              "issued; issue collections are compared as multisets of (object, IssueID, rank, message).")
DESIGN_REF = "DESIGN.md 4 (C19)"
ASSUMPTIONS = ["cross-process comparison at the end of every second run, on every document that can be saved, "
               "by two long-lived helper interpreters per worker (hash seeds 1 and 987)"]

PROFILES = {
    "c19-validation": Profile("c19-validation", {
        "new_doc": 4, "new_sec": 10, "new_prop": 10, "create_section": 4, "create_property": 4,
        "clone": 5, "append": 5, "set_attr": 6, "set_card": 10, "add_valid": 8, "remove_valid": 4,
        "validate": 14, "doc_validate": 8, "validate_custom": 12, "validate_keep": 3,
        "validate_rerun": 6, "validate_optional": 5, "save": 6, "load": 4,
        "restart": 4, "set_values": 3, "rename": 2, "lookalike_prop": 4, "damage_file": 3,
        "set_link": 3, "set_repository": 3, "custom_again": 6, "dependency_scenario": 8,
        # value edits that do not go through the values setter
        "v_append": 3, "v_extend": 2, "v_remove": 2, "v_insert": 1,
    }, fault_share=0.25, detached_share=0.25, save_only_backends=("rdf",)),
}
# a second profile in which terminologies that load and the optional terminology rules dominate
# (a third of the runs)
PROFILES["c19-terms"] = Profile("c19-terms", {
    "term_scenario": 60, "validate_optional": 6, "validate": 4, "create_property": 4,
    "set_attr": 3, "clone": 2, "new_sec": 2,
}, fault_share=0.05, length=(10, 18), save_only_backends=("rdf",))
PROFILES["c19-validation-2"] = PROFILES["c19-validation"]
MONITORS = [mon_valid]
XPROC_EVERY = 2


_VOLATILE_ID = re.compile(r"[0-9a-f]{8}-[0-9a-f]{4}-[0-9a-f]{4}-[0-9a-f]{4}-[0-9a-f]{12}")


def finale(U, interp, env, mem, res):
    """(e) another process: save a document, validate it here and in two other interpreters
    that run under other hash seeds (long-lived helpers of this worker, simkit.xproc)."""
    if res.case["run_seed"] % XPROC_EVERY:
        return None
    import odml
    from simkit import xproc
    for k, doc in enumerate(U.of_kind("doc")):
        path = os.path.join(env.sandbox, "xproc%d.xml" % k)
        try:
            odml.save(doc, path, "xml")
        except Exception:
            continue
        here = xproc.issues_of(odml.load(path, "xml"))
        outs = xproc.ask(path, "xml")
        res.stats["xproc_samples"] = res.stats.get("xproc_samples", 0) + 1
        if any("error" in o for o in outs):
            raise RuntimeError("xproc helper: %r" % (outs,))
        # an object the file gives no id or name gets a fresh uuid at every load: such ids (the
        # ones the file does not hold) say nothing about the validation
        with open(path, "r", encoding="utf-8", errors="replace") as fobj:
            stored = fobj.read()

        def settle(issues):
            text = json.dumps(issues)
            for uid in set(_VOLATILE_ID.findall(text)):
                if uid not in stored:
                    text = text.replace(uid, "<id given at load>")
            return sorted(json.loads(text), key=repr)
        a, b = settle(outs[0]["issues"]), settle(outs[1]["issues"])
        mine = settle(json.loads(json.dumps(here)))
        if a != b or mine != a:
            diff = [i for i in a if i not in b] + [i for i in b if i not in a] + \
                [i for i in mine if i not in a]
            return ("valid.cross-process", "validating the same saved document in other processes "
                    "gives different issue collections, e.g. %r" % (diff[:2],))
    return None


# validations that create nothing the rest of the history refers to (a kept Validation is
# addressed by later ops through its number, so keeping one is not left out)
OBSERVING = ("validate", "doc_validate", "validate_custom", "validate_optional")
JUDGED = OBSERVING + ("validate_rerun", "validate_keep")
_VOLATILE = re.compile(r"[0-9a-f]{8}-[0-9a-f]{4}-[0-9a-f]{4}-[0-9a-f]{4}-[0-9a-f]{12}"
                       r"|[^\"' ]*odml-verif-[0-9]+-[0-9]+")


def _outcomes(res):
    out = {}
    for line in res.log:
        try:
            rec = json.loads(line)
        except ValueError:
            continue
        if isinstance(rec, dict) and "step" in rec and "outcome" in rec and "op" in rec:
            out[rec["step"]] = (rec["op"].get("op"), json.loads(_VOLATILE.sub("<v>", json.dumps(rec["outcome"]))))
    return out


def differential(res, replay):
    """'Running a validation changes nothing' in its delayed form: what a validation reports
    does not depend on which validations ran before it.  The history is replayed without some
    of its validations; every validation that is still there must report what it reported in the
    full run (a cache filled by an earlier validation, a Validation object kept somewhere, a
    set that is never emptied all show here)."""
    info = res.extra.get("steps_info") or []
    vsteps = [st["step"] for st in info if st["op"] in OBSERVING]
    later = [st["step"] for st in info if st["op"] in JUDGED]
    if not vsteps or not later or later[-1] <= vsteps[0]:
        return
    if res.case["run_seed"] % 2:
        leave_out = set(s_ for s_ in vsteps if s_ < later[-1])          # all before the last one
    else:
        leave_out = set(vsteps[::2]) - {later[-1]}
    if not leave_out:
        return
    res.stats["differential_replays"] = res.stats.get("differential_replays", 0) + 1
    other = replay(res.case, leave_out)
    full, part = _outcomes(res), _outcomes(other)
    for step in sorted(part):
        if step in leave_out or step not in full or full[step][0] not in JUDGED:
            continue
        if full[step][1] != part[step][1]:
            from simkit.session import signature
            res.violation = {
                "monitor": "valid.no-delayed-effect", "step": len(res.case["ops"]),
                "op": {"op": "differential"}, "labels": [], "outcome": ["ret"],
                "message": "step %d (%s) reports %s when the validations of steps %r are left out "
                           "of the history, and %s with them" %
                           (step, full[step][0], json.dumps(part[step][1])[:160], sorted(leave_out)[:6],
                            json.dumps(full[step][1])[:160]),
                "signature": signature("valid.no-delayed-effect", "differential", [])}
            return


explore, execute = sessioncheck.make(PROFILES, MONITORS, PROPERTY, prelude=valid_prelude,
                                     finale=finale, differential=differential)
