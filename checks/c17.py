"""C17 - batch conversion tools never touch their inputs and isolate bad files."""
import json
import os
import re

from simkit import fsbox, seams, seeds
from simkit.session import Result, jdump, signature

PROPERTY = "C17"
ENGINE = "fsbox"
LEVEL = "exploration"
BUDGET = {"quick": (4000, 60), "thorough": (60000, 540)}
RULE = ("seeded directory trees (1-3 levels, 1-10 files, unique base names) assembled from valid 1.0 "
        "XML/JSON/YAML, valid 1.1 XML/JSON/YAML, empty, non-XML text, malformed XML and XML of "
        "another vocabulary; the position and kind of the bad files is the fault sequence, the "
        "directory listing order (os.listdir / os.scandir seam) the schedule; one tool run per tree: "
        "odmlconvert, odmltordf (x -r x -o) or FormatConverter (x recursive x explicit/implicit "
        "output x every target format but trix), the input directory spelled plain / with trailing "
        "separator / relative; a third of the odmlconvert runs are followed by odmltordf over their "
        "result. distinct = distinct (tool, flags, multiset of file "
        "kinds per level, listing permutation class) tuples")
COMPONENTS = {
    "real": ["odml.scripts.odml_convert", "odml.scripts.odml_to_rdf",
             "odml.tools.converters.format_converter", "odml.tools.converters.version_converter",
             "odml readers and writers", "docopt / argparse", "rdflib", "lxml", "tmpfs file system"],
    "stub": ["directory listing order (seeded permutation through os.listdir / os.scandir)",
             "uuid.uuid4", "wall clock", "process exit (SystemExit caught), cwd inside the sandbox"],
}
TECHNIQUE = ("FSBOX: seeded directory trees with bad files as injected faults and a simulated listing "
             "order; whole-sandbox snapshots before/after one in-process tool run")
LEVEL_TEXT = ("Seeded exploration over directory trees mixing convertible and unconvertible files in "
              "every order and nesting, with the directory listing order under the simulator's "
              "control. One tool runs in-process per tree; the whole sandbox is snapshotted before "
              "and after: inputs byte-identical, writes confined to the output location, every output "
              "loads (strict reader / rdflib) with the content of its source, the CLI tools survive "
              "any mixture, produce an output for every convertible file, none for an unconvertible one and say "
              "so in their report; a fifth of the runs follow a warm-up run of the same tool in the same process.")
LEVEL_NOTE = ("1.0 sources are written by the harness' own templates (several values, commas, numbers "
              "written as numbers, non-text Document attributes, empty child keys, siblings of one name "
              "included; one value element per value); files carry no repository/include URLs (no "
              "network); FormatConverter promises no isolation: only inputs-untouched, "
              "writes-confined and outputs-load are judged for it.")
DESIGN_REF = "DESIGN.md 4 (C17)"
ASSUMPTIONS = ["file kinds always carry the extension of their format"]

GOOD10 = ("v10xml", "v10json", "v10yaml")
GOOD11 = ("v11xml", "v11json", "v11yaml")
BAD = ("empty", "text", "malformed", "othervocab", "binary")
EXT = {"v10xml": [".xml", ".odml"], "v11xml": [".xml", ".odml"], "v10json": [".json"],
       "v11json": [".json"], "v10yaml": [".yaml"], "v11yaml": [".yaml"],
       "empty": [".xml", ".json", ".yaml", ".odml"], "text": [".xml", ".json", ".yaml", ".odml"],
       "malformed": [".xml", ".odml"], "othervocab": [".xml"],
       "binary": [".xml", ".json", ".yaml", ".odml"]}
RDF_TARGETS = ["xml", "pretty-xml", "n3", "turtle", "ttl", "ntriples", "nt", "nt11", "trig", "json-ld"]
FC_TARGETS = RDF_TARGETS + ["v1_1", "odml"]


def doc_spec(rng, tag):
    """Small description of a document: sections with one-valued and multi-valued properties."""
    secs = []
    # now and then a document without any Section (valid; such a Document is falsy: len() == 0)
    for i in range(rng.randint(1, 3) if rng.random() < 0.9 else 0):
        props = []
        for k in range(rng.randint(0, 2)):
            dt = rng.choice(["int", "string", "float"])
            val = {"int": str(rng.randint(0, 99)), "string": "txt%d" % rng.randint(0, 9),
                   "float": "%d.5" % rng.randint(0, 9)}[dt]
            props.append({"name": "%sp%d" % (tag, k), "value": val, "dtype": dt,
                          "unit": rng.choice([None, "mV"])})
        sub = []
        if rng.random() < 0.3:
            # now and then the sub-Section carries the name of one of the Section's Properties:
            # a Property and a Section of one name under one parent are different children
            sname = "%ssub" % tag if (not props or rng.random() < 0.6) else props[0]["name"]
            sub.append({"name": sname, "type": "subtype", "props": [], "secs": []})
        secs.append({"name": "%ss%d" % (tag, i), "type": "type%d" % i, "props": props, "secs": sub})
    return {"author": "author %s" % tag, "secs": secs}


def full_spec(doc_seed, base, kind):
    """doc_spec plus, from a stream of its own (older replay files keep their documents), the
    spellings a valid file of that kind may also use."""
    spec = doc_spec(seeds.Streams(doc_seed).get("doc"), base)
    rng = seeds.Streams(doc_seed).get("doc-extra")
    if rng.random() < 0.6:
        return spec
    feats = []
    if rng.random() < 0.4:
        # Document attributes a JSON / YAML decoder does not hand back as text
        spec["date"] = "2018-02-0%d" % rng.randint(1, 9)
        spec["version"] = rng.choice([1.2, 3, "v1"])
        feats.append("doc-attrs")
    props = [p for sec in spec["secs"] for p in sec["props"]]
    if props and rng.random() < 0.4:
        p = rng.choice(props)
        # several values; a text value may hold a comma
        p["more"] = [{"int": "7", "float": "2.5", "string": rng.choice(["more", "a, b", "x,y"])}
                     [p["dtype"]] for _ in range(rng.randint(1, 2))]
        if p["dtype"] == "string" and rng.random() < 0.5:
            p["value"] = "first, second"
        feats.append("multi-values")
    nums = [p for p in props if p["dtype"] in ("int", "float")]
    if nums and kind in GOOD10 and rng.random() < 0.4:
        # numbers written as numbers (JSON / YAML), zero among them
        p = rng.choice(nums)
        p["native"] = True
        p["value"] = "0"
        p["uncertainty"] = rng.choice([0, 0.5])
        feats.append("native-numbers")
    if props and kind in ("v10json", "v10yaml") and rng.random() < 0.3:
        rng.choice(props)["unit_null"] = True         # "unit": null
        feats.append("null-unit")
    if kind in ("v10json", "v10yaml") and spec["secs"] and rng.random() < 0.3:
        spec["empty_keys"] = True       # 'properties:' / 'sections:' present and empty
        feats.append("empty-keys")
    if kind == "v10yaml" and rng.random() < 0.25:
        spec["py2_tags"] = True
        feats.append("py2-yaml-tags")
    if kind == "v10xml" and rng.random() < 0.2:
        spec["empty_elements"] = True        # <repository/> and <include></include> without content
        feats.append("empty-elements")
    if kind in GOOD10 and len(spec["secs"]) >= 2 and rng.random() < 0.3:
        # version 1.0 allowed siblings of one name; the converter numbers them
        first = spec["secs"][0]["name"]
        spec["secs"][1]["name"] = first
        if len(spec["secs"]) >= 3 and rng.random() < 0.6:
            spec["secs"][2]["name"] = first + "-2"
        spec["dupnames"] = True
        feats.append("dup-names")
    spec["feats"] = feats
    return spec


def xml10(spec):
    def sec_xml(sec, ind):
        pad = "  " * ind
        out = ["%s<section>" % pad, "%s  <name>%s</name>" % (pad, sec["name"]),
               "%s  <type>%s</type>" % (pad, sec["type"])]
        if spec.get("empty_elements"):
            out.append("%s  <repository></repository>" % pad)
            out.append("%s  <include/>" % pad)
        for p in sec["props"]:
            out.append("%s  <property>" % pad)
            out.append("%s    <name>%s</name>" % (pad, p["name"]))
            inner = "<type>%s</type>" % p["dtype"]
            if p["unit"]:
                inner += "<unit>%s</unit>" % p["unit"]
            if "uncertainty" in p:
                inner += "<uncertainty>%s</uncertainty>" % p["uncertainty"]
            for val in [p["value"]] + p.get("more", []):
                out.append("%s    <value>%s%s</value>" % (pad, val, inner))
            out.append("%s  </property>" % pad)
        for s in sec["secs"]:
            out.extend(sec_xml(s, ind + 1))
        out.append("%s</section>" % pad)
        return out
    lines = ['<?xml version="1.0" encoding="UTF-8"?>', '<odML version="1">',
             "  <author>%s</author>" % spec["author"]]
    if "date" in spec:
        lines.append("  <date>%s</date>" % spec["date"])
        lines.append("  <version>%s</version>" % spec["version"])
    if spec.get("empty_elements"):
        lines.append("  <repository/>")
    for sec in spec["secs"]:
        lines.extend(sec_xml(sec, 1))
    lines.append("</odML>")
    return "\n".join(lines) + "\n"


def dict10(spec, dates_as_objects=False):
    def sec_d(sec):
        out = {"name": sec["name"], "type": sec["type"]}
        if sec["props"]:
            out["properties"] = []
            for p in sec["props"]:
                vals = []
                for text in [p["value"]] + p.get("more", []):
                    val = {"value": text, "dtype": p["dtype"]}
                    if p.get("native"):
                        val["value"] = int(text) if p["dtype"] == "int" else float(text)
                    if "uncertainty" in p:
                        val["uncertainty"] = p["uncertainty"]
                    if p["unit"]:
                        val["unit"] = p["unit"]
                    elif p.get("unit_null"):
                        val["unit"] = None
                    vals.append(val)
                out["properties"].append({"name": p["name"], "values": vals})
        elif spec.get("empty_keys"):
            out["properties"] = None
        if sec["secs"]:
            out["sections"] = [sec_d(s) for s in sec["secs"]]
        elif spec.get("empty_keys"):
            out["sections"] = None
        return out
    docd = {"author": spec["author"], "sections": [sec_d(s) for s in spec["secs"]]}
    if "date" in spec:
        import datetime
        # yaml.safe_dump writes a date object as an unquoted scalar, which decodes to a date again
        docd["date"] = datetime.date(*[int(x) for x in spec["date"].split("-")]) \
            if dates_as_objects else spec["date"]
        docd["version"] = spec["version"]
    return {"Document": docd, "odml-version": "1"}


def build11(odml, spec):
    doc = odml.Document(author=spec["author"])
    if "date" in spec:
        doc.date = spec["date"]
        doc.version = str(spec["version"])

    def add(parent, sec):
        s = odml.Section(name=sec["name"], type=sec["type"], parent=parent)
        for p in sec["props"]:
            odml.Property(name=p["name"], values=[p["value"]] + p.get("more", []),
                          dtype=p["dtype"], unit=p["unit"], parent=s)
        for sub in sec["secs"]:
            add(s, sub)
    for sec in spec["secs"]:
        add(doc, sec)
    return doc


def describe(doc):
    """(sorted) name/type/value description of a loaded document."""
    def sec_d(sec):
        return {"name": sec.name, "type": sec.type,
                "props": sorted([(p.name, [str(v) for v in p.values], p.unit) +
                                 ((float(p.uncertainty),) if p.uncertainty is not None else ())
                                 for p in sec.properties]),
                "secs": sorted([sec_d(s) for s in sec.sections], key=lambda d: d["name"])}
    return {"author": doc.author, "date": str(doc.date) if doc.date else None,
            "version": doc.version,
            "secs": sorted([sec_d(s) for s in doc.sections], key=lambda d: d["name"])}


def describe_spec(spec, conv10=False):
    from odml import dtypes

    def sec_d(sec):
        props = []
        for p in sec["props"]:
            vals = [str(dtypes.get(v, p["dtype"])) for v in [p["value"]] + p.get("more", [])]
            props.append((p["name"], vals, p["unit"]) +
                         ((float(p["uncertainty"]),) if "uncertainty" in p else ()))
        return {"name": sec["name"], "type": sec["type"], "props": sorted(props),
                "secs": sorted([sec_d(s) for s in sec["secs"]], key=lambda d: d["name"])}
    return {"author": spec["author"], "date": spec.get("date"),
            "version": str(spec["version"]) if "version" in spec else None,
            "secs": sorted([sec_d(s) for s in spec["secs"]], key=lambda d: d["name"])}


def generate(run_seed):
    rng = seeds.Streams(run_seed).get("gen")
    n = rng.randint(1, 10)
    dirs = [""]
    for _ in range(rng.randint(0, 3)):
        par = rng.choice(dirs)
        if par.count("/") < 2:
            # directory names are free text: blanks, dots and brackets are ordinary characters
            style = rng.choice(["d%d", "d%d", "d+%d", "d(%d)", "d.%d x", "d[%d]"])
            dirs.append((par + "/" if par else "") + style % len(dirs))
    files = []
    for i in range(n):
        kind = rng.choice(list(GOOD10) * 3 + list(GOOD11) * 2 + list(BAD))
        files.append({"dir": rng.choice(dirs), "base": "f%d" % i, "kind": kind,
                      "ext": rng.choice(EXT[kind]), "doc_seed": rng.randrange(1 << 30)})
    tool = rng.choice(["odmlconvert", "odmlconvert", "odmltordf", "odmltordf", "formatconverter"])
    run = {"tool": tool, "recursive": rng.random() < 0.5, "out": rng.choice(["given", "absent"]),
           # how the caller spells the input directory
           "indir": rng.choice(["plain", "plain", "trailing-slash", "relative", "relative-slash"])}
    if rng.random() < 0.3:
        run["inname"] = rng.choice(["in+put", "in(put)", "in.put", "input 1"])
    if tool == "formatconverter" and rng.random() < 0.12:
        run["indir"] = "dot"         # called from inside the input directory: "."
    if tool == "odmlconvert" and rng.random() < 0.35:
        run["chain"] = True      # second tool run: odmltordf over the result of the first
    erng = seeds.Streams(run_seed).get("earlier-revision")
    if tool == "formatconverter" and run["out"] == "given" and erng.random() < 0.3:
        run["earlier_revision"] = True
    wrng = seeds.Streams(run_seed).get("warmup")
    if wrng.random() < 0.2:
        run["warmup"] = wrng.choice(["-r", "flat"])
        run["warmup_keeps"] = wrng.random() < 0.5
        # the earlier run went where the judged run goes and its result was thrown away
        run["warmup_same_place"] = wrng.random() < 0.5
    if tool == "formatconverter":
        run["target"] = rng.choice(FC_TARGETS)
        run["api"] = rng.choice(["convert", "convert_dir"])
        # FormatConverter has no isolation: trees of files it can handle are the useful ones
        if rng.random() < 0.7:
            want = "v10xml" if run["target"] == "v1_1" else "v11xml"
            for f in files:
                f["kind"] = want
                # the converter takes every file of the directory, whatever it is called
                f["ext"] = rng.choice(EXT[want] + [""])
    return {"format": 1, "engine": "batch", "property": PROPERTY, "run_seed": run_seed,
            "dirs": dirs, "tree": files, "tool": run}


def materialise(odml, root, files):
    import yaml
    for f in files:
        d = os.path.join(root, f["dir"])
        os.makedirs(d, exist_ok=True)
        path = os.path.join(d, f["base"] + f["ext"])
        kind = f["kind"]
        spec = full_spec(f["doc_seed"], f["base"], kind)
        if kind == "v10xml":
            text = xml10(spec)
        elif kind == "v10json":
            text = json.dumps(dict10(spec), indent=2)
        elif kind == "v10yaml":
            text = yaml.safe_dump(dict10(spec, dates_as_objects=True), default_flow_style=False)
            if spec.get("py2_tags"):
                # as python-odml wrote YAML under Python 2: text scalars carry a tag
                text = re.sub(r"(?m)^(\s*(?:- )?(?:author|name|type): )([A-Za-z0-9 ]+)$",
                              r"\1!!python/unicode '\2'", text)
        elif kind in GOOD11:
            odml.save(build11(odml, spec), path, {"v11xml": "xml", "v11json": "json",
                                                  "v11yaml": "yaml"}[kind])
            continue
        elif kind == "empty":
            text = ""
        elif kind == "text":
            text = "this is not a structured document: { ] <\n"
        elif kind == "binary":
            with open(path, "wb") as fobj:
                fobj.write(b"\x00\x01\xff\xfe<odML\x00 version=\x80\x81>\n\x00\x00{]\n")
            continue
        elif kind == "malformed":
            text = '<?xml version="1.0"?>\n<odML version="1"><section><name>x</name>\n'
        else:
            text = '<?xml version="1.0"?>\n<html><body><p>other vocabulary</p></body></html>\n'
        with open(path, "w") as fobj:
            fobj.write(text)


def viol(monitor, msg, tool, labels):
    return {"monitor": monitor, "message": msg, "step": 0, "op": {"op": tool}, "labels": labels,
            "outcome": ["ret"], "signature": signature(monitor, tool, labels)}


def run_case(case):
    import odml
    res = Result(case)
    streams = seeds.Streams(case["run_seed"])
    run = case["tool"]
    tool = run["tool"]
    with seams.installed(streams) as env:
        box = os.path.join(env.sandbox, "box")
        inname = run.get("inname", "input")
        indir = os.path.join(box, inname)
        cwd = os.path.join(box, "cwd")
        given = os.path.join(box, "given_out")
        for d in (indir, cwd, given):
            os.makedirs(d)
        for d in case["dirs"]:
            os.makedirs(os.path.join(indir, d), exist_ok=True)
        materialise(odml, indir, case["tree"])
        if run.get("earlier_revision") and tool == "formatconverter" and run["out"] == "given":
            # a later session: an earlier run converted an earlier revision of the same files
            # into the same output directory; the inputs were then put back from a backup (same
            # names, other content, OLDER time stamps).  Each output has the content of its source
            alt = [dict(f, doc_seed=f["doc_seed"] + 1) for f in case["tree"]]
            materialise(odml, indir, alt)
            try:
                from odml.tools.converters.format_converter import FormatConverter as EFC
                EFC.convert_dir(indir, given, run["recursive"], run["target"])
            except (SystemExit, Exception):
                pass
            materialise(odml, indir, case["tree"])
            long_ago = 946684800        # 2000-01-01
            for dirpath, _, files_ in os.walk(indir):
                for fn in files_:
                    os.utime(os.path.join(dirpath, fn), (long_ago, long_ago))
            env.capture.take()
        if run.get("warmup"):
            # the process has run the tool before, over the same tree, into a directory that is
            # gone again: a run does not depend on what earlier runs of the process have seen
            import shutil
            warm = os.path.join(box, "warm_out")
            os.makedirs(warm)
            old = os.getcwd()
            os.chdir(cwd)
            try:
                if tool in ("odmlconvert", "odmltordf"):
                    if tool == "odmlconvert":
                        from odml.scripts import odml_convert as wmod
                    else:
                        from odml.scripts import odml_to_rdf as wmod
                    wmod.main((["-r"] if run["warmup"] == "-r" else []) + ["-o", warm, indir])
                else:
                    from odml.tools.converters.format_converter import FormatConverter as WFC
                    if run.get("warmup_same_place"):
                        # same call as the judged one; what it creates is removed afterwards
                        w_before = fsbox.snapshot(box)
                        try:
                            WFC.convert_dir(indir, given if run["out"] == "given" else None,
                                            run["recursive"], run["target"])
                        finally:
                            w_created, _, _ = fsbox.diff(w_before, fsbox.snapshot(box))
                            for rel in sorted(w_created, key=len, reverse=True):
                                pth = os.path.join(box, rel)
                                if os.path.isdir(pth) and not os.path.islink(pth):
                                    shutil.rmtree(pth, ignore_errors=True)
                                elif os.path.lexists(pth):
                                    os.remove(pth)
                    else:
                        WFC.convert_dir(indir, warm, run["warmup"] == "-r", run["target"])
            except (SystemExit, Exception):
                pass
            finally:
                os.chdir(old)
            shutil.rmtree(warm, ignore_errors=True)
            if run.get("warmup_keeps") and tool in ("odmlconvert", "odmltordf") and run["out"] == "given":
                # ... and once more into the output directory the judged run is given: its
                # results stay, the judged run has to make a directory of its own next to them
                old = os.getcwd()
                os.chdir(cwd)
                try:
                    wmod.main((["-r"] if run["warmup"] == "-r" else []) + ["-o", given, indir])
                except (SystemExit, Exception):
                    pass
                finally:
                    os.chdir(old)
            env.capture.take()
        before = fsbox.snapshot(box)
        args = []
        old_cwd = os.getcwd()
        os.chdir(cwd)
        indir_arg = {"plain": indir, "trailing-slash": indir + os.sep,
                     "relative": os.path.join("..", inname),
                     "relative-slash": os.path.join("..", inname) + os.sep,
                     "dot": "."}[run.get("indir", "plain")]
        if run.get("indir") == "dot":
            os.chdir(indir)
        counter = {}
        outcome = ("ret", None)
        env.capture.take()
        try:
            with fsbox.listing_order(streams.get("listing"), box, counter):
                if tool in ("odmlconvert", "odmltordf"):
                    if run["recursive"]:
                        args.append("-r")
                    if run["out"] == "given":
                        args += ["-o", given]
                    args.append(indir_arg)
                    if tool == "odmlconvert":
                        from odml.scripts import odml_convert as mod
                    else:
                        from odml.scripts import odml_to_rdf as mod
                    mod.main(args)
                else:
                    from odml.tools.converters.format_converter import FormatConverter
                    out_dir = given if run["out"] == "given" else None
                    if run["api"] == "convert":
                        args = [indir_arg, run["target"]]
                        if out_dir:
                            args += ["-out", out_dir]
                        if run["recursive"]:
                            args.append("-r")
                        FormatConverter.convert(args)
                    else:
                        FormatConverter.convert_dir(indir_arg, out_dir, run["recursive"], run["target"])
        except SystemExit as exc:
            outcome = ("exc", "SystemExit", str(exc.code))
        except Exception as exc:
            outcome = ("exc", type(exc).__name__, str(exc)[:160])
        finally:
            os.chdir(old_cwd)
        report, _, _ = env.capture.take()
        after = fsbox.snapshot(box)
        created, changed, removed = fsbox.diff(before, after)
        kinds = sorted(set(f["kind"] for f in case["tree"]))
        labels = [tool, "-r" if run["recursive"] else "flat", "out:" + run["out"]]
        if run.get("warmup"):
            labels.append("second-run")
        if run.get("indir", "plain") != "plain":
            labels.append("indir:" + run["indir"])
        if tool == "formatconverter":
            labels.append("target:" + run["target"])
        for k in kinds:
            res.count("labels", "file:" + k)
        res.count("labels", "tool:" + tool)
        res.stats["steps"] = 1
        res.stats["listings_permuted"] = counter.get("listings_permuted", 0)
        res.log.append(jdump({"tool": run, "outcome": list(outcome[:2]), "created": created,
                              "changed": changed, "removed": removed}))
        res.fault_shapes.add(seeds.H("c17", jdump(run), sorted((f["dir"].count("/") + (1 if f["dir"]
                             else 0), f["kind"]) for f in case["tree"]), outcome[0]))
        res.count("refusals", "%s|%s" % (tool, outcome[1] if outcome[0] == "exc" else "returned"))
        vio = None
        # (1) inputs untouched
        bad_in = [p for p in created + changed + removed if p == inname + "/" or
                  p.startswith(inname + "/")]
        if bad_in:
            vio = ("batch.inputs-untouched", "the input tree changed: %r" % bad_in[:4])
        # (2) writes confined to the output location
        if vio is None:
            if tool in ("odmlconvert", "odmltordf"):
                root = "given_out/" if run["out"] == "given" else "cwd/"
                tops = sorted(set(p[len(root):].split("/")[0] for p in created if p.startswith(root)))
                # "newly created": the directory itself is among the created paths (results of an
                # earlier run of the process may sit next to it and stay as they are)
                ok_prefix = [root + t + "/" for t in tops
                             if t.startswith("odmlconv_") and (root + t + "/") in created]
                stray = [p for p in created + changed + removed
                         if not any(p.startswith(pre) for pre in ok_prefix)]
            else:
                root = "given_out/" if run["out"] == "given" else "%s_%s/" % (inname, run["target"])
                stray = [p for p in created + changed + removed
                         if not (p == root or p.startswith(root))]
            if stray:
                vio = ("batch.writes-confined", "paths outside the output location were touched: %r"
                       % stray[:4])
        # (3) outputs load with the content of their source
        by_base = {f["base"]: f for f in case["tree"]}
        outputs = {}
        if vio is None:
            # after an earlier revision was converted into the same directory, every file there
            # is an output of this run (rewritten or, wrongly, left as it was)
            rewritten = [p for p in sorted(after) if run.get("earlier_revision") and
                         outcome[0] == "ret" and p.startswith("given_out/") and p not in created]
            for p in created + rewritten:
                if after[p][0] != "file":
                    continue
                name = os.path.basename(p)
                stem = name.rsplit(".", 1)[0]
                base = stem[:-5] if stem.endswith("_conv") else stem
                src = by_base.get(base)
                full = os.path.join(box, p)
                msg = check_output(odml, full, name, src, tool, run)
                outputs.setdefault(base, []).append(name)
                if msg:
                    vio = ("batch.outputs-load", msg)
                    break
        # (4) CLI tools: survive any mixture, every convertible file has its output
        if vio is None and tool in ("odmlconvert", "odmltordf"):
            if outcome[0] == "exc":
                vio = ("batch.isolates", "%s did not return normally: %s %s" %
                       (tool, outcome[1], outcome[2]))
            else:
                for f in case["tree"]:
                    if f["dir"] and not run["recursive"]:
                        continue
                    names = outputs.get(f["base"], [])
                    if tool == "odmlconvert":
                        need = [f["base"] + "_conv.xml"] if f["kind"] in GOOD10 else []
                    else:
                        need = []
                        if f["kind"] in GOOD10:
                            need = [f["base"] + "_conv.xml", f["base"] + "_conv.rdf"]
                        elif f["kind"] in GOOD11:
                            need = [f["base"] + ".rdf"]
                    missing = [n for n in need if n not in names]
                    if missing:
                        labels.append("src:" + f["kind"])
                        vio = ("batch.complete", "%s %s%s got no output %r (report: %s)" %
                               (f["kind"], f["base"], f["ext"], missing,
                                " | ".join(l for l in report.splitlines() if f["base"] in l)[-200:]))
                        break
                    if f["kind"] in BAD and names:
                        labels.append("src:" + f["kind"])
                        vio = ("batch.isolates", "unconvertible file %s%s (%s) was not skipped: "
                               "outputs %r" % (f["base"], f["ext"], f["kind"], names))
                        break
                    # "reported": beyond the line every file gets when its turn comes
                    # ("[Info] Handling file ..."), the report says something about this file
                    said = [ln for ln in re.split(r"(?=\[(?:Info|Error|Warning)\])", report)
                            if f["base"] + f["ext"] in ln and "Handling file" not in ln]
                    if f["kind"] in BAD and not said:
                        labels.append("src:" + f["kind"])
                        vio = ("batch.isolates", "unconvertible file %s%s (%s) is skipped without "
                               "being reported: the report only says %r" %
                               (f["base"], f["ext"], f["kind"],
                                [ln.strip() for ln in report.splitlines()
                                 if f["base"] + f["ext"] in ln][:3]))
                        break
        # (4b) the format converter promises no isolation, but a tree in which every file is of
        # the kind it converts must come out complete: each output "with the content of its source"
        if vio is None and tool == "formatconverter":
            want = "v10xml" if run["target"] == "v1_1" else "v11xml"
            scope = [f for f in case["tree"] if run["recursive"] or not f["dir"]]
            if scope and all(f["kind"] == want for f in case["tree"]):
                if outcome[0] == "exc":
                    vio = ("batch.complete", "formatconverter failed on a tree of convertible files "
                           "only: %s %s" % (outcome[1], outcome[2]))
                else:
                    for f in scope:
                        if not outputs.get(f["base"]):
                            vio = ("batch.complete", "%s %s%s (in %r) got no output" %
                                   (f["kind"], f["base"], f["ext"], f["dir"]))
                            break
        # (5) a second tool over the result of the first: odmltordf on the odmlconv_* directory
        if vio is None and run.get("chain") and tool == "odmlconvert" and outcome[0] == "ret":
            root = "given_out/" if run["out"] == "given" else "cwd/"
            tops = sorted(set(p[len(root):].split("/")[0] for p in created if p.startswith(root)))
            tops = [t for t in tops if t.startswith("odmlconv_")]
            conv = sorted(p for p in created if after.get(p, ("",))[0] == "file" and p.endswith("_conv.xml"))
            if tops and conv:
                labels.append("chain:odmltordf")
                stage1 = os.path.join(box, root, tops[0])
                before2 = fsbox.snapshot(box)
                os.chdir(cwd)
                out2 = ("ret", None)
                try:
                    with fsbox.listing_order(streams.get("listing2"), box, counter):
                        from odml.scripts import odml_to_rdf as mod2
                        mod2.main((["-r"] if run["recursive"] else []) + [stage1])
                except SystemExit as exc:
                    out2 = ("exc", "SystemExit", str(exc.code))
                except Exception as exc:
                    out2 = ("exc", type(exc).__name__, str(exc)[:160])
                finally:
                    os.chdir(old_cwd)
                after2 = fsbox.snapshot(box)
                created2, changed2, removed2 = fsbox.diff(before2, after2)
                res.log.append(jdump({"chain": "odmltordf", "outcome": list(out2[:2]),
                                      "created": created2, "changed": changed2, "removed": removed2}))
                touched_old = [p for p in changed2 + removed2 if p in before2] + \
                    [p for p in created2 if p.startswith(root + tops[0] + "/")]
                if out2[0] == "exc":
                    vio = ("batch.isolates", "odmltordf over the odmlconvert result did not return "
                           "normally: %s %s" % (out2[1], out2[2]))
                elif touched_old:
                    vio = ("batch.inputs-untouched", "the second tool changed its input tree: %r" %
                           touched_old[:4])
                else:
                    names2 = set(os.path.basename(p) for p in created2)
                    for p in conv:
                        rel = p[len(root + tops[0]) + 1:]
                        if "/" in rel and not run["recursive"]:
                            continue
                        want = os.path.basename(p)[:-4] + ".rdf"
                        if want not in names2:
                            vio = ("batch.complete", "valid 1.1 file %s (result of odmlconvert) got "
                                   "no RDF output %s" % (os.path.basename(p), want))
                            break
        if vio:
            res.violation = viol(vio[0], vio[1], tool, labels)
    return res


def check_output(odml, full, name, src, tool, run):
    from odml.tools.xmlparser import XMLReader
    if src is None:
        return "output %s has no source file" % name
    spec = full_spec(src["doc_seed"], src["base"], src["kind"])
    want = describe_spec(spec)
    if name.endswith((".xml", ".odml")):
        try:
            doc = XMLReader(show_warnings=False).from_file(full)
        except Exception as exc:
            return "output %s does not load with the strict reader: %s: %s" % (
                name, type(exc).__name__, str(exc)[:100])
        got = describe(doc)
        if spec.get("dupnames"):
            # the converter numbers siblings of one name: the top-level names are its choice,
            # everything else (how many Sections, their types and content) is the source's
            for side in (got, want):
                for sec in side["secs"]:
                    sec["name"] = None
                side["secs"].sort(key=lambda d: d["type"])
        if src["kind"] in GOOD10 + GOOD11 and got != want:
            return "output %s does not carry the content of its source: %r vs %r" % (
                name, got, want)
        return None
    # an RDF serialisation
    import rdflib
    fmt = "xml"
    if tool == "formatconverter":
        fmt = run["target"]
    fmt = {"pretty-xml": "xml", "ttl": "turtle", "ntriples": "nt", "nt11": "nt"}.get(fmt, fmt)
    try:
        graph = rdflib.ConjunctiveGraph() if fmt == "trig" else rdflib.Graph()
        graph.parse(full, format=fmt)
    except Exception as exc:
        return "output %s does not parse as RDF (%s): %s: %s" % (name, fmt, type(exc).__name__,
                                                                  str(exc)[:100])
    ns = rdflib.Namespace("https://g-node.org/odml-rdf#")
    names = sorted(str(o) for o in graph.objects(None, ns.hasName))
    want_names = []

    def collect(secs):
        for s in secs:
            want_names.append(s["name"])
            for p in s["props"]:
                want_names.append(p[0])
            collect(s["secs"])
    collect(want["secs"])
    if spec.get("dupnames"):
        # the converter numbers siblings of one name: the top-level names are its choice; all
        # other names, and how many top-level Sections there are, are the source's
        top = [s_["name"] for s_ in want["secs"]]
        rest = list(want_names)
        for nm in top:
            rest.remove(nm)
        left = list(names)
        for nm in rest:
            if nm in left:
                left.remove(nm)
            else:
                return "RDF output %s lacks the name %r of its source" % (name, nm)
        if len(left) != len(top) or len(set(left)) != len(left):
            return "RDF output %s names its top-level Sections %r, source has %d of them" % (
                name, left, len(top))
        return None
    if src["kind"] in GOOD10 + GOOD11 and names != sorted(want_names):
        return "RDF output %s names %r, source has %r" % (name, names, sorted(want_names))
    return None


def explore(run_seed, tier, known=None):
    return run_case(generate(run_seed))


def execute(case, known=None):
    return run_case(case)


def shrink(case, sig):
    from simkit.shrink import shrink_case
    return shrink_case(case, run_case, sig, list_keys=("tree",))
