"""C06 - a refused operation changes nothing."""
from simkit.gen import Profile
from simkit.monitors import mon_atomic
from simkit import sessioncheck

PROPERTY = "C06"
ENGINE = "session"
LEVEL = "exploration"
BUDGET = {"quick": (100000, 60), "thorough": (2500000, 540)}
RULE = ("seeded edit histories with 60% fault ops over all op families of C03-C05 and C09, every "
        "refusal reason of the quantifier provoked in a generated pre-state; whenever an op raises, "
        "the whole-universe snapshot (all roots, all alias lists) must be unchanged and no new "
        "object may hang below a pre-existing one. distinct = distinct (op, labels, exception) "
        "refusal classes combined with the universe shape in which they fired")
COMPONENTS = sessioncheck.COMPONENTS
TECHNIQUE = 'SESSION: fault injection = operations provoked to fail in generated pre-states; whole-universe snapshot equality when an op raises'
LEVEL_TEXT = 'Seeded exploration with 60% fault ops: every operation family is invoked in pre-states chosen so that the library has to refuse it (name clash, wrong type, own subtree, attached elsewhere, duplicate in argument, invalid cardinality, unconvertible value, malformed id, invalid date, unresolvable or unmergeable link); whenever a call raises, the snapshot of the whole universe, all roots and alias lists included, must equal the snapshot before the call.'
LEVEL_NOTE = 'Snapshots go through the public getters; nothing is asserted when an op succeeds; bounded histories and universe.'
DESIGN_REF = 'DESIGN.md 4 (C06)'
ASSUMPTIONS = ["nothing is asserted when an op succeeds (other properties do that)",
               "universe bounded to 40 objects, histories to 40 ops"]

PROFILES = {
    "c06-all": Profile("c06-all", {
        "new_doc": 3, "new_sec": 12, "new_prop": 12, "create_section": 5, "create_property": 5,
        "append": 8, "insert": 6, "extend": 10, "remove": 4, "set_parent": 8, "setitem": 6,
        "reorder": 2, "rename": 6, "clone": 3, "merge": 8, "set_link": 5, "set_include": 3, "save": 2, "merge_again": 5, "merge_self": 2, "finalize": 3, "clean": 1, "new_id": 4,
        "set_values": 8, "set_dtype": 6, "v_append": 5, "v_extend": 5, "v_insert": 4,
        "v_setitem": 4, "v_remove": 2, "set_card": 8, "set_attr": 3, "get_values": 1,
    }, fault_share=0.6),
}
MONITORS = [mon_atomic]

explore, execute = sessioncheck.make(PROFILES, MONITORS, PROPERTY)
