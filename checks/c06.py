"""C06 - a refused operation changes nothing."""
from simkit.gen import Profile
from simkit.monitors import mon_atomic
from simkit import sessioncheck

PROPERTY = "C06"
ENGINE = "session"
LEVEL = "exploration"
BUDGET = {"quick": (100000, 60), "thorough": (2500000, 540)}
RULE = ("seeded edit histories with 60% fault ops over all op families of C03-C05 and C09, every "
        "refusal reason of the quantifier provoked in a generated pre-state; whenever an op raises, "
        "the whole-universe snapshot (all roots, all alias lists) must be unchanged and no new "
        "object may hang below a pre-existing one. distinct = distinct (op, labels, exception) "
        "refusal classes combined with the universe shape in which they fired")
COMPONENTS = sessioncheck.COMPONENTS
TECHNIQUE = 'SESSION: fault injection = operations provoked to fail in generated pre-states; whole-universe snapshot equality when an op raises; history differential (replay without the refused ops, same final state)'
LEVEL_TEXT = 'Seeded exploration with 60% fault ops: every operation family is invoked in pre-states chosen so that the library has to refuse it (name clash, wrong type, own subtree, attached elsewhere, duplicate in argument, invalid cardinality, unconvertible value, malformed id, invalid date, unresolvable or unmergeable link); whenever a call raises, the snapshot of the whole universe, all roots and alias lists included, must equal the snapshot before the call. At the end of a run the history is replayed without the operations that raised: the final universe must be the same (a refusal has no delayed effect either).'
LEVEL_NOTE = 'Snapshots go through the public getters; nothing is asserted when an op succeeds; bounded histories and universe.'
DESIGN_REF = 'DESIGN.md 4 (C06)'
ASSUMPTIONS = ["nothing is asserted when an op succeeds (other properties do that)",
               "universe bounded to 40 objects, histories to 40 ops"]

PROFILES = {
    "c06-all": Profile("c06-all", {
        "new_doc": 3, "new_sec": 12, "new_prop": 12, "create_section": 5, "create_property": 5,
        "append": 8, "insert": 6, "extend": 10, "remove": 4, "set_parent": 8, "setitem": 6,
        "reorder": 2, "rename": 6, "clone": 3, "merge": 8, "set_link": 5, "set_include": 3, "save": 2, "merge_again": 5, "merge_check": 6, "merge_self": 2, "finalize": 3, "linked_copy": 5, "clean": 3, "new_id": 4,
        "set_values": 8, "set_dtype": 6, "v_append": 5, "v_extend": 5, "v_insert": 4,
        "v_setitem": 4, "v_remove": 2, "set_card": 8, "set_attr": 3, "get_values": 1,
        "add_raising_rule": 1,
    }, fault_share=0.6, wfilter_share=0.04),
}
MONITORS = [mon_atomic]

import re as _re
_UUID = _re.compile(r"[0-9a-f]{8}-[0-9a-f]{4}-[0-9a-f]{4}-[0-9a-f]{4}-[0-9a-f]{12}"
                   r"|[^\"' ]*odml-verif-[0-9]+-[0-9]+")        # ids, and the per-run sandbox path


def differential(res, replay):
    """A refused operation changes nothing - also nothing that only shows later: replay the history
    without the operations that raised; every later state must be the same (ids aside, refused
    constructors draw from the id stream)."""
    from simkit.session import signature
    info = res.extra.get("steps_info") or []
    leave_out = set(st["step"] for st in info if st["outcome"] == "exc")
    if not leave_out or len(leave_out) == len(info):
        return
    # an op that quotes an id of this run (a name chosen to equal an existing id) means something
    # else in a replay whose ids come out differently: such histories are not compared
    import json as _json
    _snaps = [s_ for s_ in (res.extra.get("snapshots") or []) if s_ is not None]
    _text = _json.dumps(res.case["ops"], default=repr)
    if any(m != "5b6a1b40-2bd4-4a12-8f3c-0a1b2c3d4e5f" and "odml-verif" not in m
           for m in _UUID.findall(_text)):
        return          # (the generator's one fixed id is the same text in every run)
    res.stats["differential_replays"] = res.stats.get("differential_replays", 0) + 1
    other = replay(res.case, leave_out)
    all_a = res.extra.get("snapshots") or []
    all_b = other.extra.get("snapshots") or []
    if len(all_a) != len(all_b):
        return

    import json

    def normal(snap):
        """Records as text with every id of the run replaced by the position of its holder: ids
        (and names, values, links that quote them) differ between the runs only by the stream."""
        ids = sorted(((rec.get("id"), i) for i, rec in enumerate(snap["objs"]) if rec.get("id")),
                     key=lambda t: -len(t[0]))
        out = []
        for rec in snap["objs"]:
            text = json.dumps(rec, sort_keys=True, default=repr)
            # ids that are nobody's any more (a name that still quotes the id its object had
            # before new_id) differ by the stream position as well
            out.append(_UUID.sub("<uuid>", text))
        return out
    for sa, sb in zip(all_a, all_b):
        if sa is not None and sb is not None and len(sa["objs"]) != len(sb["objs"]):
            return          # the runs registered different objects: nothing to compare
    last = [(sa, sb) for sa, sb in zip(all_a, all_b) if sa is not None and sb is not None]
    if not last:
        return
    na, nb = normal(last[-1][0]), normal(last[-1][1])
    for i, (ta, tb) in enumerate(zip(na, nb)):
        if ta != tb:
            ra, rb = json.loads(ta), json.loads(tb)
            keys = [k_ for k_ in sorted(set(ra) | set(rb)) if ra.get(k_) != rb.get(k_)]
            res.violation = {
                "monitor": "atomic.no-delayed-effect", "step": len(res.case["ops"]),
                "op": {"op": "differential"}, "labels": [], "outcome": ["ret"],
                "message": "obj#%d ends up different in %r when the refused operations (steps %r) are "
                           "left out of the history: %r vs %r" %
                           (i, keys, sorted(leave_out)[:6], ra.get(keys[0]) if keys else None,
                            rb.get(keys[0]) if keys else None),
                "signature": signature("atomic.no-delayed-effect", "differential", [])}
            return


explore, execute = sessioncheck.make(PROFILES, MONITORS, PROPERTY, differential=differential)
