"""C16 - readers are total: a document, or a ParserException - never anything else.

Claimed in part: for inputs that storage faults produce from valid saved files
(truncation, zeroed / garbage blocks, bit flips, lost / duplicated / swapped
records, torn and stale writes).  Arbitrary strings and grammar-generated trees
are generative fuzzing, a different technique, and are not covered."""
import json
import os
import re
import signal

from simkit import seams, seeds, storage_faults
from simkit.monitors import tree_structure, names_ids
from simkit.session import Result, jdump, signature
from simkit.universe import Universe, kind_of

PROPERTY = "C16"
ENGINE = "fsbox"
LEVEL = "exploration"
BUDGET = {"quick": (15000, 60), "thorough": (400000, 540)}
RULE = ("a seeded valid document (all dtypes, ids, cardinalities, nesting) is saved twice (old and new "
        "version) as XML / JSON / YAML, the stored bytes are damaged by a plan of 1-3 storage faults "
        "(truncate, zero, garbage, bitflip biased into text/scalars, drop/dup/swap of line ranges "
        "aligned or unaligned to records, torn, stale) and the file is read back through every "
        "reader entry point in strict and lenient mode; a small slice reads resource-limit shapes (valid "
        "XML nested 100-3000 levels). distinct = distinct (format, fault kinds, outcome classes of the "
        "entry points) tuples")
COMPONENTS = {
    "real": ["odml.tools.xmlparser", "odml.tools.dict_parser", "odml.tools.odmlparser", "odml.fileio",
             "lxml / libxml2", "json", "PyYAML", "tmpfs file system"],
    "stub": ["uuid.uuid4", "wall clock", "the storage device: faults are applied to the stored bytes "
             "between save and load"],
}
TECHNIQUE = ("FSBOX: save, inject storage faults into the stored bytes (crash / corruption model), "
             "restart, read through every entry point (with and without the readers' own validation); "
             "totality, lenient-warns and kept-parts oracles")
LEVEL_TEXT = ("Seeded exploration of the reader as the component that consumes a stored stream which "
              "storage faults have damaged. XML: every entry point returns a Document or raises "
              "ParserException (InvalidVersionException for another version) and returns in time; "
              "lenient mode never raises on text that is still well-formed odML 1.1; JSON/YAML: the "
              "same for the dict reader whenever the damaged text still decodes to an odML-shaped "
              "dictionary; single faults confined to one attribute record (XML, JSON, YAML), repeating "
              "exactly one complete element, or dropping an empty child list must leave every other "
              "object in the lenient result; every returned document is a well-formed tree with "
              "unique names and canonical ids.")
LEVEL_NOTE = ("PARTIAL: only fault-derived inputs (storage faults incl. a substituted scalar, plus a small corpus of extreme / minimal stored shapes). Structural shapes no storage fault produces (wrong "
              "nesting, unknown elements with children, case variants, arbitrary strings) are out of "
              "reach; the evidence counts which shape classes were hit. Damaged JSON/YAML text that "
              "no longer decodes to an odML-shaped dict is counted as unjudged.")
DESIGN_REF = "DESIGN.md 4 (C16)"
ASSUMPTIONS = ["'shaped like an odML dictionary' = root dict whose 'Document' is a dict (or empty) and whose "
               "sections / properties entries are, recursively, lists of dicts or empty (None: what "
               "'sections:' with its list lines lost decodes to)"]

READ_TIMEOUT = 8
DTYPE_VALUES = [
    ("string", ["alpha", "b c"]), ("text", ["line one\nline two"]), ("int", [1, 2, 3]),
    # values that stress the list syntax of the stored text and the dtype hints of the validation
    ("string", ["Smith, John", "Doe, Jane"]), ("string", ['say "hi"', "it's", "a;b"]),
    ("string", ["1234567890123456789012345678901234567890-A", "1000000000000000000000000000000.5x"]),
    ("person", ["Doe, J."]),
    ("float", [1.5, -2.25]), ("boolean", [True, False]), ("date", ["2020-01-02"]),
    ("time", ["12:34:56"]), ("datetime", ["2020-01-02 03:04:05"]), ("url", ["http://x.org/a"]),
    ("person", ["Doe J"]), ("2-tuple", ["(1;2)", "(3;4)"]), ("int", []),
]


class ReadTimeout(Exception):
    pass


def build_doc(odml, rng):
    doc = odml.Document(author="A. Uthor", version="v1", date="2020-02-03")
    names = ["a", "b", "c", "d", "e", "f"]
    secs = []

    def add_section(parent, depth):
        used = [s.name for s in parent.sections]
        free = [n for n in names if n not in used]
        if not free:
            return
        sec = odml.Section(name=rng.choice(free), type=rng.choice(["t1", "t2/sub"]), parent=parent,
                           definition=rng.choice([None, "a definition"]))
        if rng.random() < 0.3:
            sec.sec_cardinality = rng.choice([(None, 4), (0, 3)])
        if rng.random() < 0.3:
            sec.prop_cardinality = rng.choice([(None, 5), (1, 4), (2, 2)])
        secs.append((sec, depth))
        for k in range(rng.randint(0, 3)):
            dt, vals = rng.choice(DTYPE_VALUES)
            prop = odml.Property(name="p%d" % k, dtype=dt, values=vals, parent=sec,
                                 unit=rng.choice([None, "mV"]),
                                 uncertainty=rng.choice([None, 0.5]),
                                 definition=rng.choice([None, "prop def"]))
            if rng.random() < 0.3:
                prop.val_cardinality = rng.choice([(None, 5), (0, 3), (1, None)])

    for _ in range(rng.randint(1, 3)):
        add_section(doc, 1)
    for _ in range(rng.randint(0, 5)):
        par, depth = rng.choice(secs)
        if depth < 3:
            add_section(par, depth + 1)
    return doc


def edit_doc(odml, doc, rng):
    secs = list(doc.itersections())
    sec = rng.choice(secs)
    odml.Property(name="added", values=[7, 8], parent=sec)
    props = list(doc.iterproperties())
    prop = rng.choice(props)
    prop.definition = "changed definition"
    doc.version = "v2"


def aligned_ranges(data, fmt):
    """Line ranges that hold one complete element / mapping entry of the stored text."""
    lines = data.split(b"\n")
    out = []
    if fmt == "xml":
        stack = []
        for i, line in enumerate(lines):
            s = line.strip()
            m = re.match(rb"^<(section|property)>$", s)
            if m:
                stack.append(i)
            elif re.match(rb"^</(section|property)>$", s) and stack:
                out.append((stack.pop(), i + 1))
            elif re.match(rb"^<(\w+)>[^<]*</\1>$", s):
                out.append((i, i + 1))
    else:
        for i, line in enumerate(lines):
            if re.match(rb"^\s*[\-\"\w]", line):
                out.append((i, i + 1))
        out.extend(element_ranges(data, fmt))
    return out


def element_ranges(data, fmt):
    """Line ranges holding one complete element (a Section or Property with everything below
    it) of the stored text: <section>/<property> elements, JSON objects inside a list, YAML
    block-sequence entries."""
    lines = data.split(b"\n")
    out = []
    if fmt == "xml":
        stack = []
        for i, line in enumerate(lines):
            s = line.strip()
            if re.match(rb"^<(section|property)>$", s):
                stack.append(i)
            elif re.match(rb"^</(section|property)>$", s) and stack:
                out.append((stack.pop(), i + 1))
    elif fmt == "json":
        stack = []
        for i, line in enumerate(lines):
            m = re.match(rb"^( *)\{$", line)
            if m:
                stack.append((len(m.group(1)), i))
                continue
            m = re.match(rb"^( *)\},?$", line)
            if m and stack and stack[-1][0] == len(m.group(1)):
                ind, start = stack.pop()
                if line.rstrip().endswith(b","):      # not the last element: a copy stays valid JSON
                    out.append((start, i + 1))
    else:
        for i, line in enumerate(lines):
            m = re.match(rb"^( *)- [\w\-]+:( |$)", line)     # a mapping entry, not a scalar value
            if not m:
                continue
            ind = len(m.group(1))
            j = i + 1
            while j < len(lines) and (lines[j].strip() == b"" or
                                      len(lines[j]) - len(lines[j].lstrip(b" ")) > ind):
                j += 1
            if j > i + 1:
                out.append((i, j))
    return out


_ID_IN_TEXT = re.compile(rb"(?:<id>|\"id\": *\"|\bid: *'?)([0-9a-f]{8}-[0-9a-f]{4}-[0-9a-f]{4}-"
                         rb"[0-9a-f]{4}-[0-9a-f]{12})")


def dup_element_ids(new, fault, fmt):
    """If the single fault repeats exactly one complete element of the stored text, return the ids
    of the objects stored inside that element (which of two clashing siblings is 'the valid
    part' is left open by the statement; every *other* object is a valid part), else None."""
    if fault["kind"] != "dup":
        return None
    rng_ = (fault["l1"], fault["l2"])
    if rng_ not in element_ranges(new, fmt):
        return None
    lines = new.split(b"\n")
    block = b"\n".join(lines[fault["l1"]:fault["l2"]])
    ids = set(m.group(1).decode("ascii") for m in _ID_IN_TEXT.finditer(block))
    return ids or None      # an element without an id line is not a Section / Property record


DICT_ATTR = rb"(unit|uncertainty|definition|reference|value_origin|dependency|dependency_value|author|version|date)"
JSON_ATTR_LINE = re.compile(rb'^( *)"' + DICT_ATTR + rb'": ("[^"\\]*"|-?[0-9.]+),?$')
YAML_ATTR_LINE = re.compile(rb"^( *(?:- )?)" + DICT_ATTR + rb": ([^\n]+)$")
# an empty child list: losing the line loses nothing ('sections: []' / '"properties": [],')
JSON_EMPTY_LIST = re.compile(rb'^( *)"(sections|properties)": (\[\]),$')
YAML_EMPTY_LIST = re.compile(rb"^( *)(sections|properties): (\[\])$")


def _key_indent(line):
    """Indentation of the mapping key on a JSON / YAML line ('- ' of a YAML list item counts)."""
    m = re.match(rb"^( *(?:- )?)", line)
    return len(m.group(1))


def dict_attr_record_owner(new, fault, fmt):
    """JSON / YAML counterpart of attr_record_owner: the single fault is confined to the scalar of
    one attribute line (or drops / repeats exactly that line); returns the id stored in the same
    mapping, '' for a Document-level attribute, None if the fault is of another kind."""
    lines = new.split(b"\n")
    pat = JSON_ATTR_LINE if fmt == "json" else YAML_ATTR_LINE
    target = None
    kind = fault["kind"]
    if kind == "bitflip":
        pos = 0
        for i, ln in enumerate(lines):
            if pos <= fault["off"] < pos + len(ln):
                m = pat.match(ln)
                if m:
                    a, b = m.span(3)
                    if fmt == "json" and ln[a:a + 1] == b'"':
                        a, b = a + 1, b - 1
                    rel = fault["off"] - pos
                    if a <= rel < b:
                        ch = ln[rel] ^ (1 << fault["bit"])
                        if 0x20 < ch < 0x7f and ch not in (0x22, 0x5c, 0x27, 0x3a, 0x23, 0x7b, 0x7d,
                                                           0x5b, 0x5d, 0x2c, 0x26, 0x2a, 0x21, 0x7c,
                                                           0x3e, 0x25, 0x40, 0x60):
                            target = i
                break
            pos += len(ln) + 1
    elif kind == "subst":
        # the replacing text stays one plain scalar (no YAML / JSON syntax of its own)
        if re.match(r"^[A-Za-z0-9.:()-]*$", fault["text"]) and ": " not in fault["text"] and \
                not fault["text"].startswith("-") and (fmt == "json" or fault["text"]):
            pos = 0
            for i, ln in enumerate(lines):
                if pos <= fault["off"] < pos + len(ln):
                    m = pat.match(ln)
                    if m:
                        a, b = m.span(3)
                        if ln[a:a + 1] in (b'"', b"'"):
                            a, b = a + 1, b - 1
                        if pos + a <= fault["off"] and fault["end"] <= pos + b and \
                                (fmt == "yaml" or ln[m.start(3):m.start(3) + 1] == b'"'):
                            target = i
                    break
                pos += len(ln) + 1
    elif kind in ("drop", "dup"):
        # a YAML line carrying the '- ' of its list item is structural: without it the following
        # keys fall into the previous item
        if fault["l2"] - fault["l1"] == 1 and fault["l1"] < len(lines) and \
                pat.match(lines[fault["l1"]]) and not lines[fault["l1"]].lstrip().startswith(b"- "):
            target = fault["l1"]
        elif kind == "drop" and fault["l2"] - fault["l1"] == 1 and fault["l1"] < len(lines) and \
                (JSON_EMPTY_LIST if fmt == "json" else YAML_EMPTY_LIST).match(lines[fault["l1"]]):
            target = fault["l1"]
    if target is None:
        return None
    ind = _key_indent(lines[target])
    id_pat = re.compile(rb'^ *(?:- )?"?id"?: *["\']?([0-9a-f-]{36})')
    first_key = lines[target].lstrip().startswith(b"- ")
    for step in (-1, 1):
        if step == -1 and first_key:
            continue      # the target line opens its YAML list item: nothing of it lies above
        # scan the lines of the same mapping: same key indentation; deeper lines belong to nested
        # values; a shallower line ends the mapping
        j = target + step
        while 0 <= j < len(lines):
            ln = lines[j]
            if ln.strip():
                k = _key_indent(ln)
                if k < ind:
                    break
                if k == ind:
                    opens_item = ln.lstrip().startswith(b"- ")
                    if step == 1 and opens_item:
                        break     # the next list item begins
                    m = id_pat.match(ln)
                    if m:
                        return m.group(1).decode("ascii")
                    if step == -1 and opens_item:
                        break     # first key of this list item reached
            j += step
    return ""


def owner_is_dup(excluded, fault):
    return excluded is not None and fault["kind"] == "dup" and fault["l2"] - fault["l1"] > 1


def kept_parts(ref_doc, lenient_doc, excluded, what):
    """Every Section / Property of the reference reading that the fault did not touch is present
    in the lenient reading of the damaged text: same id, same parent, same own attributes."""
    U = Universe()
    U.register(ref_doc)
    U.rediscover()
    want = index_doc(U, ref_doc)
    V = Universe()
    V.register(lenient_doc)
    V.rediscover()
    got = index_doc(V, lenient_doc)
    for oid, (pid, attrs) in sorted(want.items()):
        if oid in excluded:
            continue
        if oid not in got:
            return ("read.kept-parts", "%s lost %s %r" % (what, attrs["k"], attrs.get("name")))
        if got[oid][0] != pid and pid != ref_doc.id:
            return ("read.kept-parts", "%s: %s %r moved to another parent" %
                    (what, attrs["k"], attrs.get("name")))
        if got[oid][1] != attrs:
            diffs = [k for k in attrs if got[oid][1].get(k) != attrs[k]]
            return ("read.kept-parts", "%s: %s %r changed in %r although the fault hit "
                    "another object" % (what, attrs["k"], attrs.get("name"), diffs))
    return None


ATTR_LINE = re.compile(rb"^\s*<(value|unit|uncertainty|definition|reference|value_origin|"
                       rb"val_cardinality|sec_cardinality|prop_cardinality|dependency|"
                       rb"dependencyvalue|date|author|version)>[^<]*</\1>\s*$")


def shaped(obj):
    if not isinstance(obj, dict) or "Document" not in obj:
        return False
    if obj["Document"] is None:
        return True         # 'Document:' with nothing behind it: an empty Document
    if not isinstance(obj["Document"], dict):
        return False

    def secs_ok(lst):
        if lst is None:
            return True       # 'sections:' with nothing behind it: an empty child container
        if not isinstance(lst, list):
            return False
        for sec in lst:
            if not isinstance(sec, dict):
                return False
            if "sections" in sec and not secs_ok(sec["sections"]):
                return False
            if "properties" in sec and sec["properties"] is not None:
                if not isinstance(sec["properties"], list) or \
                        not all(isinstance(p, dict) for p in sec["properties"]):
                    return False
        return True
    docd = obj["Document"]
    if "sections" in docd and not secs_ok(docd["sections"]):
        return False
    return True


ROOT_SHAPES = {
    # spellings of the root element a file from another tool may carry; every answer must be a
    # Document or a ParserException
    "ns-default": '<odML xmlns="http://www.g-node.org/odml" version="1.1">%s</odML>',
    "ns-prefix": '<o:odML xmlns:o="http://www.g-node.org/odml" version="1.1">%s</o:odML>',
    "upper": '<ODML version="1.1">%s</ODML>',
    "extra-attr": '<odML version="1.1" generator="x">%s</odML>',
    "version-spaces": '<odML version=" 1.1 ">%s</odML>',
    "pi-comment": '<?pi x?><!-- c --><odML version="1.1"><!-- c -->%s<?pi y?></odML>',
    "doctype": '<!DOCTYPE odML [<!ENTITY e "ent">]><odML version="1.1"><author>&e;</author>%s</odML>',
}


DICT_ROOTS = {
    # small JSON / YAML files as they are left when the lines below a key are lost
    "yaml-document-empty": ("yaml", "Document:\nodml-version: '1.1'\n"),
    "yaml-document-map": ("yaml", "Document: {}\nodml-version: '1.1'\n"),
    "yaml-sections-empty": ("yaml", "Document:\n  author: me\n  sections:\nodml-version: '1.1'\n"),
    "yaml-properties-empty": ("yaml", "Document:\n  sections:\n  - name: s\n    type: t\n    properties:\n"
                                      "odml-version: '1.1'\n"),
    "yaml-version-float": ("yaml", "Document:\n  author: me\nodml-version: 1.1\n"),
    "json-document-null": ("json", '{"Document": null, "odml-version": "1.1"}'),
    "json-document-map": ("json", '{"Document": {}, "odml-version": "1.1"}'),
    "json-sections-null": ("json", '{"Document": {"sections": null}, "odml-version": "1.1"}'),
}


XML_DECLS = {
    # spellings of the XML declaration other serialisers write
    "single-quotes": "<?xml version='1.0' encoding='UTF-8'?>",
    "single-quotes-lower": "<?xml version='1.0' encoding='utf-8'?>",
    "no-encoding": '<?xml version="1.0"?>',
    "standalone": '<?xml version="1.0" encoding="UTF-8" standalone="yes"?>',
    "spaces": '<?xml  version = "1.0"  encoding = "UTF-8" ?>',
    "none": "",
}


def shape_bytes(shape):
    if shape["kind"] == "dictroot":
        return DICT_ROOTS[shape["depth"]][1].encode()
    if shape["kind"] == "decl":
        body = "<section><name>s</name><type>t</type><property><name>p</name><value>1</value>" \
               "</property></section>"
        return (XML_DECLS[shape["depth"]] + '\n<odML version="1.1">%s</odML>\n' % body).lstrip("\n").encode()
    if shape["kind"] == "root":
        body = "<section><name>s</name><type>t</type><property><name>p</name><value>1</value>" \
               "</property></section>"
        return ('<?xml version="1.0" encoding="UTF-8"?>\n' + ROOT_SHAPES[shape["depth"]] % body +
                "\n").encode()
    d = shape["depth"]
    body = "".join("<section><name>s%d</name><type>t</type>" % i for i in range(d)) + "</section>" * d
    return ('<?xml version="1.0" encoding="UTF-8"?>\n<odML version="1.1">%s</odML>\n' % body).encode()


DEPTHS = [100, 250, 256, 300, 600, 1500, 3000]


def call(fn):
    """Run one reader call under a timer; -> ('doc', obj) | ('none',) | ('exc', type, msg) | ('hang',)"""
    def on_alarm(signum, frame):
        raise ReadTimeout()
    old = signal.signal(signal.SIGALRM, on_alarm)
    remaining = signal.alarm(0)
    signal.setitimer(signal.ITIMER_REAL, READ_TIMEOUT)
    try:
        try:
            obj = fn()
        finally:
            signal.setitimer(signal.ITIMER_REAL, 0)
    except ReadTimeout:
        out = ("hang",)
    except Exception as exc:
        out = ("exc", type(exc).__name__, str(exc)[:120], exc)
    else:
        out = ("doc", obj) if obj is not None else ("none",)
    signal.signal(signal.SIGALRM, old)
    if remaining:
        signal.alarm(max(1, remaining))
    return out


def own_attrs(U, obj):
    rec = U.record(obj)
    return {k: v for k, v in rec.items() if k not in ("parent", "secs", "props", "merged")}


def index_doc(U, doc):
    """id -> (parent id, own attributes) for every Section and Property of doc."""
    out = {}
    for obj in U.subtree(doc):
        if kind_of(obj) in ("sec", "prop"):
            par = obj.parent
            out[obj.id] = (getattr(par, "id", None), own_attrs(U, obj))
    return out


def run_case(case):
    import odml
    from lxml import etree
    import yaml
    from odml.tools.xmlparser import XMLReader
    from odml.tools.odmlparser import ODMLReader
    from odml.tools.dict_parser import DictReader
    from odml.tools.parser_utils import ParserException, InvalidVersionException
    res = Result(case)
    fmt = case["fmt"]
    streams = seeds.Streams(case["run_seed"])
    with seams.installed(streams) as env:
        path = os.path.join(env.sandbox, "stored." + fmt)
        if case.get("shape"):
            # resource-limit shapes: stored text that is valid but extreme (nesting depth); the
            # reader has to answer with a Document or a ParserException, like for any other text
            old = new = shape_bytes(case["shape"])
            res.count("labels", "shape:%s:%s" % (case["shape"]["kind"], case["shape"]["depth"]))
        else:
            rng = seeds.Streams(case["doc_seed"]).get("doc")
            doc = build_doc(odml, rng)
            odml.save(doc, path, fmt)
            with open(path, "rb") as fobj:
                old = fobj.read()
            edit_doc(odml, doc, rng)
            if case.get("twins"):
                # sibling names that look alike and are different names (composed / decomposed
                # spelling, case): all of them valid parts
                host = doc.sections[0]
                for nm in ("\u00e4", "a\u0308", "A\u0308"):
                    if nm not in [s_.name for s_ in doc.sections]:
                        odml.Section(name=nm, type="t1", parent=doc)
                    if nm not in [p_.name for p_ in host.properties]:
                        odml.Property(name=nm, values=[1], parent=host)
            odml.save(doc, path, fmt)
            with open(path, "rb") as fobj:
                new = fobj.read()
            stored_ids = sorted(o.id for o in [doc] + list(doc.itersections()) + list(doc.iterproperties()))
        if not case.get("shape"):
            # nothing is damaged yet: every part of the stored text is valid, the lenient reader
            # keeps all of it
            try:
                if fmt == "xml":
                    clean_doc = XMLReader(ignore_errors=True, show_warnings=False).from_string(new)
                else:
                    clean_doc = DictReader(show_warnings=False, ignore_errors=True).to_odml(
                        json.loads(new.decode("utf-8")) if fmt == "json" else yaml.safe_load(new.decode("utf-8")))
                got_ids = sorted(o.id for o in [clean_doc] + list(clean_doc.itersections()) +
                                 list(clean_doc.iterproperties()))
            except Exception as exc:
                got_ids = "%s: %s" % (type(exc).__name__, exc)
            if got_ids != stored_ids:
                lost = [i for i in stored_ids if not isinstance(got_ids, list) or i not in got_ids]
                res.violation = {"monitor": "read.kept-parts", "step": 0, "op": {"op": "read"},
                                 "labels": [fmt, "undamaged"], "outcome": ["ret"],
                                 "message": "the lenient reader does not keep all parts of the undamaged "
                                            "stored text: %d object(s) missing or %s" % (len(lost), str(got_ids)[:120]),
                                 "signature": signature("read.kept-parts", "%s:undamaged" % fmt, [])}
                return res
        faults = case["faults"]
        if faults == "generate":
            frng = streams.get("fault")
            kinds = case.get("kinds") or storage_faults.KINDS
            n = 1 if frng.random() < 0.5 else frng.randint(2, 3)
            faults = storage_faults.plan(frng, new, n, kinds, aligned=aligned_ranges(new, fmt))
            case["faults"] = faults
        damaged = storage_faults.apply(new, faults, old)
        with open(path, "wb") as fobj:
            fobj.write(damaged)
        try:
            text = damaged.decode("utf-8")
        except UnicodeDecodeError:
            text = None
        kinds_used = sorted(set(f["kind"] for f in faults))
        labels = [fmt] + kinds_used
        for k in kinds_used:
            res.count("labels", "fault:" + k)
        res.stats["steps"] = 1
        U = Universe()
        orig_index = None
        outcomes = []
        vio = None

        def judge_returned(name, obj):
            if kind_of(obj) != "doc":
                return ("read.total", "%s returned %r" % (name, type(obj).__name__))
            V = Universe()
            V.register(obj)
            V.rediscover()
            v = tree_structure(V, max_depth=4000 if case.get("shape") else 60) or \
                names_ids(V, str_names=False)
            if v:
                return ("read.wellformed-tree", "%s returned a document violating %s: %s" %
                        (name, v[0], v[1]))
            return None

        if fmt == "xml":
            # the harness' own view of the damaged text
            wellformed, root_ok, version = False, False, None
            try:
                root = etree.fromstring(damaged, etree.XMLParser(remove_comments=True))
                wellformed = True
                root_ok = root.tag == "odML"
                version = root.attrib.get("version")
            except etree.XMLSyntaxError:
                pass
            except Exception:
                pass
            current = wellformed and root_ok and version == "1.1"
            res.count("labels", "xml:" + ("lenient-path" if current else
                                          "wellformed-other" if wellformed else "not-wellformed"))
            entries = [
                ("XMLReader.strict.from_file", False, lambda: XMLReader(show_warnings=False).from_file(path)),
                ("XMLReader.lenient.from_file", True,
                 lambda: XMLReader(ignore_errors=True, show_warnings=False).from_file(path)),
                ("XMLReader.strict.from_string", False,
                 lambda: XMLReader(show_warnings=False).from_string(damaged)),
                ("XMLReader.lenient.from_string", True,
                 lambda: XMLReader(ignore_errors=True, show_warnings=False).from_string(damaged)),
                ("ODMLReader.from_file", True, lambda: ODMLReader("XML", show_warnings=False).from_file(path)),
                ("ODMLReader.from_string", False,
                 lambda: ODMLReader("XML", show_warnings=False).from_string(damaged)),
                ("odml.load", True, lambda: odml.load(path, "xml", show_warnings=False)),
                # the defaults: the reader validates what it has read and prints the issues
                ("odml.load(defaults)", True, lambda: odml.load(path, "xml")),
                ("ODMLReader.from_string(defaults)", False,
                 lambda: ODMLReader("XML").from_string(damaged)),
            ]
            # from_file also takes file like objects: text mode, binary mode, and one whose .name is
            # a descriptor number (os.fdopen / tempfile.TemporaryFile)
            entries.append(("XMLReader.lenient.from_file(fileobj:rb)", True,
                            lambda: XMLReader(ignore_errors=True, show_warnings=False).from_file(open(path, "rb"))))
            entries.append(("XMLReader.strict.from_file(fileobj:fd)", False,
                            lambda: XMLReader(show_warnings=False).from_file(
                                os.fdopen(os.open(path, os.O_RDONLY), "rb"))))
            entries.append(("ODMLReader.from_file(fileobj:fd)", True,
                            lambda: ODMLReader("XML", show_warnings=False).from_file(
                                os.fdopen(os.open(path, os.O_RDONLY), "rb"))))
            entries.append(("ODMLReader.from_file(fileobj:rb,defaults)", True,
                            lambda: ODMLReader("XML").from_file(open(path, "rb"))))
            entries.append(("XMLReader.strict.from_file(fileobj:text)", False,
                            lambda: XMLReader(show_warnings=False).from_file(
                                open(path, "r", encoding="utf-8"))))
            if text is not None:
                import io
                entries.append(("XMLReader.lenient.from_file(fileobj:StringIO)", True,
                                lambda: XMLReader(ignore_errors=True, show_warnings=False).from_file(
                                    io.StringIO(text))))
                entries.append(("XMLReader.lenient.from_string(str)", True,
                                lambda: XMLReader(ignore_errors=True, show_warnings=False).from_string(text)))
                entries.append(("ODMLReader.from_string(str)", False,
                                lambda: ODMLReader("XML", show_warnings=False).from_string(text)))
            lenient_doc = None
            for name, lenient, fn in entries:
                out = call(fn)
                outcomes.append((name, out[0] if out[0] != "exc" else out[1]))
                if out[0] == "hang":
                    vio = ("read.returns", "%s did not return within %d s" % (name, READ_TIMEOUT))
                elif out[0] == "none":
                    vio = ("read.total-xml", "%s returned None" % name)
                elif out[0] == "exc":
                    exc = out[3]
                    if not isinstance(exc, ParserException):
                        vio = ("read.total-xml", "%s leaked %s: %s" % (name, out[1], out[2]))
                    elif wellformed and root_ok and version not in (None, "1.1") and \
                            not isinstance(exc, InvalidVersionException):
                        vio = ("read.total-xml", "%s raised %s for format version %r, not "
                               "InvalidVersionException" % (name, out[1], version))
                    elif lenient and current:
                        vio = ("read.lenient-xml", "%s raised %s on well-formed odML 1.1 text: %s" %
                               (name, out[1], out[2]))
                else:
                    vio = judge_returned(name, out[1])
                    if lenient and lenient_doc is None:
                        lenient_doc = out[1]
                if vio:
                    labels.append("entry:" + name.split("(")[0])
                    break
            # "every problem is recorded as a warning": what the strict reader refuses, the
            # lenient readers must have on their warnings list afterwards
            strict_refused = any(n == "XMLReader.strict.from_string" and o == "ParserException"
                                 for n, o in outcomes)
            if vio is None and lenient_doc is not None and strict_refused and current:
                for name, make in (("XMLReader.lenient", lambda: XMLReader(ignore_errors=True,
                                                                           show_warnings=False)),
                                   ("ODMLReader(XML)", lambda: ODMLReader("XML", show_warnings=False))):
                    rdr = make()
                    out = call(lambda: rdr.from_file(path))
                    if out[0] == "doc" and not list(getattr(rdr, "warnings", [])):
                        vio = ("read.lenient-warns", "%s.from_file read text the strict reader refuses "
                               "and recorded no warning" % name)
                        labels.append("entry:" + name)
                        break
            # the same damaged text as another tool would write it - on one line, no indentation:
            # the lenient reader has as many problems to record (its messages name file, line and
            # tag, so on one line two problems of one kind read the same)
            if vio is None and lenient_doc is not None and current and wellformed:
                try:
                    compact = etree.tostring(etree.fromstring(
                        damaged, etree.XMLParser(remove_blank_text=True, remove_comments=True)))
                except Exception:
                    compact = None
                if compact is not None and b"\n" not in compact:
                    r1 = XMLReader(ignore_errors=True, show_warnings=False)
                    r2 = XMLReader(ignore_errors=True, show_warnings=False)
                    o1 = call(lambda: r1.from_string(damaged))
                    o2 = call(lambda: r2.from_string(compact))
                    if o1[0] == "doc" and o2[0] == "doc" and len(r1.warnings) != len(r2.warnings):
                        res.count("labels", "compact-judged")
                        vio = ("read.lenient-warns", "the lenient reader records %d warnings for the "
                               "stored text and %d for the same text on one line" %
                               (len(r1.warnings), len(r2.warnings)))
                        labels.append("entry:compact")
            # kept parts: a single fault confined to one attribute record, or repeating exactly
            # one complete element
            if vio is None and lenient_doc is not None and len(faults) == 1:
                owner = attr_record_owner(new, faults[0])
                excluded, what = None, None
                if owner is not None:
                    excluded, what = {owner}, "fault in one attribute record of %s" % owner[:8]
                    res.count("labels", "kept-parts-judged")
                else:
                    excluded = dup_element_ids(new, faults[0], "xml")
                    what = "repeating one complete element"
                    if excluded is not None:
                        res.count("labels", "kept-parts-dup-judged")
                if excluded is not None:
                    # reference: the undamaged stored text read by the same lenient reader
                    # (what a save/load round trip does to attributes is C01's business)
                    ref_doc = XMLReader(ignore_errors=True, show_warnings=False).from_string(new)
                    vio = kept_parts(ref_doc, lenient_doc, excluded, what)
                    if vio:
                        labels.append("entry:kept-parts")
        else:
            decoded, ok = None, False
            if text is not None:
                try:
                    decoded = json.loads(text) if fmt == "json" else yaml.safe_load(text)
                    ok = True
                except Exception:
                    ok = False
            if not ok or not shaped(decoded):
                res.count("labels", fmt + ":unjudged-" + ("undecodable" if not ok else "unshaped"))
                res.log.append(jdump({"faults": faults, "judged": False}))
                res.fault_shapes.add(seeds.H("c16", fmt, kinds_used, "unjudged", ok))
                return res
            version = decoded.get("odml-version")
            current = version == "1.1"
            res.count("labels", fmt + ":" + ("lenient-path" if current else "other-version"))
            import copy
            entries = [
                ("DictReader.strict", False,
                 lambda: DictReader(show_warnings=False).to_odml(copy.deepcopy(decoded))),
                ("DictReader.lenient", True,
                 lambda: DictReader(show_warnings=False, ignore_errors=True).to_odml(copy.deepcopy(decoded))),
                ("ODMLReader.from_file", fmt == "yaml",
                 lambda: ODMLReader(fmt.upper(), show_warnings=False).from_file(path)),
                ("ODMLReader.from_string", False,
                 lambda: ODMLReader(fmt.upper(), show_warnings=False).from_string(text)),
                ("odml.load", fmt == "yaml", lambda: odml.load(path, fmt, show_warnings=False)),
                ("odml.load(defaults)", fmt == "yaml", lambda: odml.load(path, fmt)),
                ("ODMLReader.from_string(defaults)", False,
                 lambda: ODMLReader(fmt.upper()).from_string(text)),
            ]
            lenient_doc = None
            for name, lenient, fn in entries:
                out = call(fn)
                outcomes.append((name, out[0] if out[0] != "exc" else out[1]))
                if out[0] == "doc" and name == "DictReader.lenient":
                    lenient_doc = out[1]
                if out[0] == "hang":
                    vio = ("read.returns", "%s did not return within %d s" % (name, READ_TIMEOUT))
                elif out[0] == "none":
                    vio = ("read.total-dict", "%s returned None for an odML-shaped dictionary" % name)
                elif out[0] == "exc":
                    exc = out[3]
                    if not isinstance(exc, ParserException):
                        vio = ("read.total-dict", "%s leaked %s: %s" % (name, out[1], out[2]))
                    elif version is not None and not current and \
                            not isinstance(exc, InvalidVersionException):
                        vio = ("read.total-dict", "%s raised %s for odml-version %r" %
                               (name, out[1], version))
                    elif lenient and current:
                        vio = ("read.lenient-dict", "%s raised %s on an odML-shaped 1.1 dictionary: "
                               "%s" % (name, out[1], out[2]))
                else:
                    vio = judge_returned(name, out[1])
                if vio:
                    labels.append("entry:" + name)
                    break
            strict_refused = any(n == "DictReader.strict" and o == "ParserException"
                                 for n, o in outcomes)
            if vio is None and lenient_doc is not None and strict_refused and current:
                readers = [("DictReader.lenient", DictReader(show_warnings=False, ignore_errors=True),
                            lambda r: r.to_odml(copy.deepcopy(decoded)))]
                if fmt == "yaml":
                    readers.append(("ODMLReader(YAML)", ODMLReader("YAML", show_warnings=False),
                                    lambda r: r.from_file(path)))
                for name, rdr, run in readers:
                    out = call(lambda: run(rdr))
                    if out[0] == "doc" and not list(getattr(rdr, "warnings", [])):
                        vio = ("read.lenient-warns", "%s read a dictionary the strict reader refuses "
                               "and recorded no warning" % name)
                        labels.append("entry:" + name)
                        break
            if vio is None and lenient_doc is not None and len(faults) == 1 and current and \
                    kind_of(lenient_doc) == "doc":
                excluded = dup_element_ids(new, faults[0], fmt)
                if excluded is not None:
                    res.count("labels", "kept-parts-dup-judged")
                else:
                    owner = dict_attr_record_owner(new, faults[0], fmt)
                    if owner is not None:
                        excluded = {owner}
                        res.count("labels", "kept-parts-judged")
                what = "repeating one complete element" if owner_is_dup(excluded, faults[0]) else \
                    "fault in one attribute record"
                if excluded is not None:
                    clean = json.loads(new.decode("utf-8")) if fmt == "json" else \
                        yaml.safe_load(new.decode("utf-8"))
                    ref_doc = DictReader(show_warnings=False, ignore_errors=True).to_odml(clean)
                    vio = kept_parts(ref_doc, lenient_doc, excluded, what)
                    if vio:
                        labels.append("entry:kept-parts")
        res.log.append(jdump({"faults": faults, "outcomes": outcomes}))
        res.fault_shapes.add(seeds.H("c16", fmt, kinds_used, outcomes))
        for name, oc in outcomes:
            res.count("refusals", "%s|%s|%s" % (fmt, name, oc))
        if vio:
            exc_name = ""
            m = re.search(r"(leaked|raised) (\w+)", vio[1])
            if m:
                exc_name = m.group(2)
            ent = [l for l in labels if l.startswith("entry:")]
            res.violation = {"monitor": vio[0], "message": vio[1], "step": 0,
                             "op": {"op": "read"}, "labels": labels, "outcome": ["ret"],
                             "signature": signature(vio[0], "%s:%s" % (fmt, ent[0][6:] if ent else ""),
                                                    [exc_name] if exc_name else [])}
    return res


def attr_record_owner(new, fault):
    """If the single fault is confined to one attribute-record line of the stored XML (and keeps
    the tags intact), return the id of the object owning that record, else None."""
    lines = new.split(b"\n")
    starts = []
    pos = 0
    for ln in lines:
        starts.append(pos)
        pos += len(ln) + 1
    target = None
    kind = fault["kind"]
    if kind == "bitflip":
        off = fault["off"]
        for i, st in enumerate(starts):
            if st <= off < st + len(lines[i]):
                m = ATTR_LINE.match(lines[i])
                if m:
                    a = lines[i].find(b">") + 1
                    b = lines[i].rfind(b"</")
                    if st + a <= off < st + b:
                        ch = lines[i][off - st] ^ (1 << fault["bit"])
                        if ch not in (0x3c, 0x3e, 0x26) and 0x20 <= ch < 0x7f:
                            target = i
                break
    elif kind == "subst":
        for i, st in enumerate(starts):
            if st <= fault["off"] < st + len(lines[i]):
                if ATTR_LINE.match(lines[i]):
                    a = lines[i].find(b">") + 1
                    b = lines[i].rfind(b"</")
                    if st + a <= fault["off"] and fault["end"] <= st + b and \
                            "<" not in fault["text"] and "&" not in fault["text"]:
                        target = i
                break
    elif kind in ("drop", "dup"):
        if fault["l2"] - fault["l1"] == 1 and fault["l1"] < len(lines) and \
                ATTR_LINE.match(lines[fault["l1"]]):
            target = fault["l1"]
    if target is None:
        return None
    # owner: the id element of the enclosing section / property / odML element
    depth = 0
    for i in range(target - 1, -1, -1):
        s = lines[i].strip()
        if re.match(rb"^</(section|property)>$", s):
            depth += 1
        elif re.match(rb"^<(section|property|odML[^>]*)>$", s):
            if depth == 0:
                # find the <id> line directly inside this element
                d2 = 0
                for j in range(i + 1, len(lines)):
                    t = lines[j].strip()
                    if re.match(rb"^<(section|property)>$", t):
                        d2 += 1
                    elif re.match(rb"^</(section|property|odML)>$", t):
                        if d2 == 0:
                            break
                        d2 -= 1
                    elif d2 == 0:
                        m = re.match(rb"^<id>([^<]*)</id>$", t)
                        if m:
                            return m.group(1).decode("ascii", "replace")
                return None
            depth -= 1
    return None


def explore(run_seed, tier, known=None):
    return run_case(generate_case(run_seed, tier))


def generate_case(run_seed, tier=None):
    """The case of a run, without running it (also what a run that never returns is replayed from)."""
    rng = seeds.Streams(run_seed).get("gen")
    case = {"format": 1, "engine": "readfault", "property": PROPERTY, "run_seed": run_seed,
            "fmt": rng.choice(["xml", "xml", "json", "yaml"]), "doc_seed": rng.randrange(1 << 30),
            "faults": "generate"}
    r = rng.random()
    if seeds.Streams(run_seed).get("twins").random() < 0.15:
        case["twins"] = True
    if r < 0.5:
        case["kinds"] = rng.sample(storage_faults.KINDS, rng.randint(1, 3))   # swarm
    if rng.random() < 0.03:
        case["fmt"] = "xml"
        case["shape"] = {"kind": "deep", "depth": rng.choice(DEPTHS)} if rng.random() < 0.5 else \
            {"kind": "root", "depth": rng.choice(sorted(ROOT_SHAPES))}
        case["faults"] = [] if rng.random() < 0.7 else "generate"
        case["kinds"] = ["bitflip", "truncate"]
        if rng.random() < 0.25:
            case["shape"] = {"kind": "decl", "depth": rng.choice(sorted(XML_DECLS))}
        if rng.random() < 0.3:
            name = rng.choice(sorted(DICT_ROOTS))
            case["fmt"] = DICT_ROOTS[name][0]
            case["shape"] = {"kind": "dictroot", "depth": name}
    return case


def execute(case, known=None):
    return run_case(case)


def shrink(case, sig):
    from simkit.shrink import shrink_case
    return shrink_case(case, run_case, sig, list_keys=("faults",))
