"""C04 - sibling names stay unique; names and ids are never empty or malformed."""
from simkit.gen import Profile
from simkit.monitors import mon_names
from simkit import sessioncheck

PROPERTY = "C04"
ENGINE = "session"
LEVEL = "exploration"
BUDGET = {"quick": (100000, 60), "thorough": (2500000, 540)}
RULE = ("seeded edit histories over a 3-letter name alphabet so that clashes are frequent, plus "
        "renames to None/''/sibling/own name and constructors / new_id with valid, upper-case, "
        "braced, truncated and garbage ids; names/ids monitor after every op. distinct = distinct "
        "universe shape hashes reached after an op carrying a fault label")
COMPONENTS = sessioncheck.COMPONENTS
TECHNIQUE = 'SESSION: seeded search over edit histories on a 3-letter name alphabet; names/ids invariant monitor after every op'
LEVEL_TEXT = "Seeded exploration of edit histories in which name clashes are frequent by construction (3-letter alphabet, state-directed clash ops, keep_id clones) and ids come from the quantifier's list of valid and malformed spellings; uniqueness, non-emptiness, id canonical form, name fallback and name lookup are checked after every operation."
LEVEL_NOTE = 'Trusts uuid.UUID as the definition of a canonical id; bounded histories and universe.'
DESIGN_REF = 'DESIGN.md 4 (C04)'
ASSUMPTIONS = ["upper-case, braced and dash-less spellings are valid UUID inputs; the monitor accepts "
               "their canonical form", "universe bounded to 40 objects, histories to 40 ops"]

PROFILES = {
    "c04-names": Profile("c04-names", {
        "new_doc": 3, "new_sec": 12, "new_prop": 10, "create_section": 6, "create_property": 6,
        "append": 10, "insert": 8, "extend": 10, "remove": 4, "set_parent": 8, "setitem": 10,
        "reorder": 2, "rename": 14, "clone": 8, "merge": 6, "set_link": 3, "clean": 2, "new_id": 6, "bulk_create": 2, "reseed": 1,
    }, fault_share=0.4),
}
MONITORS = [mon_names]

explore, execute = sessioncheck.make(PROFILES, MONITORS, PROPERTY)
