"""C03 - a document is always a well-formed tree, whatever editing history produced it."""
from simkit.gen import Profile
from simkit.monitors import mon_tree
from simkit import sessioncheck

PROPERTY = "C03"
ENGINE = "session"
LEVEL = "exploration"
BUDGET = {"quick": (100000, 60), "thorough": (2500000, 540)}
RULE = ("seeded edit histories (3-40 ops, state-directed fault ops) over a universe of <=40 odml "
        "objects; the tree monitor runs after every op.  distinct = distinct universe shape "
        "hashes (structure + names + value counts, ids ignored) reached after an op that carried "
        "at least one fault label (name clash, attached elsewhere, destination in own subtree, "
        "wrong type, duplicate in argument, ...)")
COMPONENTS = sessioncheck.COMPONENTS
TECHNIQUE = 'SESSION: seeded search over edit histories incl. refused ops; tree invariant monitor after every op'
LEVEL_TEXT = 'Seeded exploration: tens of thousands (quick) to millions (thorough) of generated edit histories over all structural entry points, including operations provoked to fail, with the four tree clauses and termination of the traversals checked on the whole universe after every single operation. A clean batch is evidence, not proof; every failure is minimised and replayable.'
LEVEL_NOTE = "Trusts the harness' bounded walk and the public getters (.parent, .sections, .properties, .document); histories are bounded to 40 ops over at most 40 objects (plus, in some runs, one branch of 60 to 140 nested Sections); list methods inherited from list are outside the quantifier."
DESIGN_REF = 'DESIGN.md 3.3, 4 (C03)'
ASSUMPTIONS = ["list methods inherited from list (del, pop, list.insert, sort ...) on the live child "
               "lists are not operations of the property's quantifier and are not issued",
               "universe bounded to 40 objects (plus one branch of 60 to 140 nested Sections in some runs), "
               "histories to 40 ops"]

PROFILES = {
    "c03-structure": Profile("c03-structure", {
        "new_doc": 4, "new_sec": 14, "new_prop": 8, "create_section": 4, "create_property": 3,
        "append": 12, "insert": 8, "extend": 8, "remove": 6, "set_parent": 12, "setitem": 8,
        "reorder": 3, "rename": 4, "clone": 6, "merge": 5, "set_link": 4, "set_include": 2, "save": 2, "merge_self": 2, "bulk_create": 1, "finalize": 1,
        "clean": 2, "new_id": 1, "add_raising_rule": 1, "deep_chain": 1,
    }, fault_share=0.35, deep_range=(60, 140), deep_room=1),
}
MONITORS = [mon_tree]

explore, execute = sessioncheck.make(PROFILES, MONITORS, PROPERTY, own_tree=True)
