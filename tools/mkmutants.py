"""Generate /verif/mutants/<id>-<name>.patch from (file, old, new) specs against the current /repo.

Each mutant keeps the package importable and (checked by `vcheck selftest mutants --tests`)
the repository's own test suite green, but breaks one property."""
import difflib
import os
import sys

REPO = "/repo"
OUT = "/verif/mutants"

M = []


def m(prop, name, path, old, new, count=1):
    M.append((prop, name, path, old, new, count))


# ---- C03
m("C03", "remove-keeps-parent", "odml/base.py",
  "        self._sections.remove(section)\n        section._parent = None\n",
  "        self._sections.remove(section)\n")
m("C03", "setitem-keeps-parent-of-replaced", "odml/base.py",
  "            value._parent = replaced._parent\n            replaced._parent = None\n",
  "            value._parent = replaced._parent\n")
m("C03", "no-ancestor-check-in-parent-setter-path", "odml/section.py",
  "        if isinstance(obj, BaseSection):\n            base._check_not_own_ancestor(self, obj)\n            if obj.name in self._sections:\n",
  "        if isinstance(obj, BaseSection):\n            if obj.name in self._sections:\n")
m("C03", "append-does-not-detach-property", "odml/section.py",
  "                raise KeyError(\"Object with the same name already exists! \" + str(obj))\n            # An object can only be the child of one parent.\n            if obj.parent is not None:\n                obj.parent.remove(obj)\n            self._props.append(obj)\n",
  "                raise KeyError(\"Object with the same name already exists! \" + str(obj))\n            self._props.append(obj)\n")
# ---- C04
m("C04", "insert-without-name-check", "odml/section.py",
  "            if obj.name in self.properties:\n                raise ValueError(\"odml.Section.insert: \"\n                                 \"Property with name '%s' already exists.\" % obj.name)\n\n",
  "")
m("C04", "property-rename-checks-sections", "odml/property.py",
  "        if hasattr(curr_parent, \"properties\") and new_name in curr_parent.properties:\n",
  "        if hasattr(curr_parent, \"properties\") and new_name in curr_parent.sections:\n")
m("C04", "new-id-unchecked", "odml/section.py",
  "        if oid is not None:\n            self._id = str(uuid.UUID(oid))\n        else:\n            self._id = str(uuid.uuid4())\n\n    @property\n    def name(self):",
  "        if oid is not None:\n            self._id = str(oid)\n        else:\n            self._id = str(uuid.uuid4())\n\n    @property\n    def name(self):")
# breaks atomicity only (the second append still refuses the clash): a C06 mutant
m("C06", "extend-ignores-new-prop-names", "odml/section.py",
  "                    (obj.name in self.properties or obj.name in new_prop_names):\n",
  "                    (obj.name in self.properties):\n")
# ---- C05
m("C05", "dtype-setter-no-rollback", "odml/property.py",
  "            self._dtype = old_type  # If conversion failed, restore old dtype\n", "            pass\n")
m("C05", "extend-appends-unconverted", "odml/property.py",
  "        self._values.extend([dtypes.get(v, self.dtype) for v in new_value])\n",
  "        self._values.extend(new_value)\n")
m("C05", "time-keeps-microseconds", "odml/dtypes.py",
  "        # Drop the sub-second part and any time zone.\n        return dt.time(string.hour, string.minute, string.second)\n",
  "        return string\n")
m("C05", "values-setter-keeps-inferred-dtype", "odml/property.py",
  "            # A refused assignment must not leave an inferred dtype behind.\n            self._dtype = old_dtype\n",
  "")
# ---- C06
m("C06", "extend-no-precheck-of-argument-names", "odml/base.py",
  "            if sec.name in self._sections or sec.name in new_names:\n",
  "            if sec.name in self._sections:\n")
m("C06", "values-cleared-before-validation", "odml/property.py",
  "            self._values = []\n            return\n\n        old_dtype = self._dtype\n",
  "            self._values = []\n            return\n\n        self._values = []\n        old_dtype = self._dtype\n")
m("C06", "merge-check-after-attributes", "odml/section.py",
  "        self.merge_check(section, strict)\n\n        # Remember which attributes are taken over, unmerge has to reset them.\n        merged_attrs = []\n        if self.definition is None and section.definition is not None:\n            self.definition = section.definition\n",
  "        # Remember which attributes are taken over, unmerge has to reset them.\n        merged_attrs = []\n        if self.definition is None and section.definition is not None:\n            self.definition = section.definition\n        self.merge_check(section, strict)\n\n")
m("C06", "ctor-attaches-before-cardinality", "odml/property.py",
  "        self.val_cardinality = val_cardinality\n\n        # Attach to the parent last: a Property that could not be fully\n        # set up must not end up in the parents child list.\n        self.parent = parent\n",
  "        self.parent = parent\n        self.val_cardinality = val_cardinality\n")
m("C06", "link-stored-before-merge-check", "odml/section.py",
  "        # Make sure the referenced Section can be merged before anything is changed.\n        self.merge_check(new_section, strict=False)\n\n        if self._link is not None:\n",
  "        if self._link is not None:\n")
# ---- C07
m("C07", "xml-open-before-render", "odml/tools/xmlparser.py",
  "        data = str(self)\n\n        if not local_style and not custom_template:\n",
  "        file = open(filename, \"w\", encoding=\"utf-8\")\n        file.close()\n        data = str(self)\n\n        if not local_style and not custom_template:\n")
m("C07", "yaml-skips-validation-errors", "odml/tools/odmlparser.py",
  "        if msg != \"\":\n            msg = \"Resolve document validation errors before saving %s\" % msg\n",
  "        if msg != \"\" and self.parser != 'YAML':\n            msg = \"Resolve document validation errors before saving %s\" % msg\n")
m("C07", "rdf-open-before-render", "odml/tools/rdf_converter.py",
  "        data = self.get_rdf_str(rdf_format)\n        filename_ext = filename\n        if filename.find(RDF_CONVERSION_FORMATS.get(rdf_format)) < 0:\n            filename_ext += RDF_CONVERSION_FORMATS.get(rdf_format)\n\n        with open(filename_ext, \"w\") as out_file:\n            out_file.write(data)\n",
  "        filename_ext = filename\n        if filename.find(RDF_CONVERSION_FORMATS.get(rdf_format, \".rdf\")) < 0:\n            filename_ext += RDF_CONVERSION_FORMATS.get(rdf_format, \".rdf\")\n\n        with open(filename_ext, \"w\") as out_file:\n            out_file.write(self.get_rdf_str(rdf_format))\n")
m("C07", "json-open-before-render", "odml/tools/odmlparser.py",
  "            data = self.to_string(odml_document, **kwargs)\n            with open(filename, 'w') as file:\n                file.write(data)\n",
  "            with open(filename, 'w') as file:\n                file.write(self.to_string(odml_document, **kwargs))\n")
m("C07", "warnings-block-save", "odml/tools/odmlparser.py",
  "            if err.is_error:\n                # msg += \"\\n\\t- %s %s: %s\" % (err.obj, err.rank, err.msg)\n",
  "            if err.is_error or err.is_warning:\n                # msg += \"\\n\\t- %s %s: %s\" % (err.obj, err.rank, err.msg)\n")
# ---- C09
m("C09", "format-cardinality-strict-greater", "odml/util.py",
  "        if max_int and min_int and v_max >= v_min:\n", "        if max_int and min_int and v_max > v_min:\n")
m("C09", "validation-max-off-by-one", "odml/validation.py",
  "        elif val_max and val_len > val_max:\n", "        elif val_max and val_len >= val_max:\n")
m("C09", "dict-reader-drops-prop-cardinality", "odml/tools/dict_parser.py",
  "                    if attr.endswith(\"_cardinality\"):\n                        content = parse_cardinality(content)\n\n                    usable, content = self._text_content(attr, content, \"Section\")",
  "                    if attr == \"sec_cardinality\":\n                        content = parse_cardinality(content)\n                    elif attr.endswith(\"_cardinality\"):\n                        content = None\n\n                    usable, content = self._text_content(attr, content, \"Section\")")
m("C09", "xml-cardinality-min-only-lost", "odml/tools/xmlparser.py",
  "        if min_int and max_val == \"None\":\n            return int(min_val), None\n", "")
m("C09", "cardinality-enforced-on-append", "odml/property.py",
  "        self._values.append(dtypes.get(new_value[0], self.dtype))\n",
  "        if self._val_cardinality and self._val_cardinality[1] and \\\n                len(self._values) >= self._val_cardinality[1]:\n            raise ValueError(\"cardinality\")\n        self._values.append(dtypes.get(new_value[0], self.dtype))\n")
# ---- C11
m("C11", "clone-shares-property-list", "odml/section.py",
  "        obj._props = base.SmartList(BaseProperty)\n        if children:\n            for prop in self._props:\n                obj.append(prop.clone(keep_id))\n",
  "        obj._props = base.SmartList(BaseProperty)\n        if children:\n            obj._props = self._props\n")
m("C11", "values-getter-returns-stored-list", "odml/property.py",
  "        return [list(val) if isinstance(val, list) else val for val in self._values]\n",
  "        return self._values\n")
m("C11", "property-clone-shares-values", "odml/property.py",
  "        obj._parent = None\n        obj.values = self._values\n",
  "        obj._parent = None\n        obj._values = self._values\n")
m("C11", "clone-children-keep-ids", "odml/base.py",
  "                obj.append(sec.clone(keep_id=keep_id))\n", "                obj.append(sec.clone(keep_id=True))\n")
m("C11", "export-leaf-fresh-ids", "odml/section.py",
  "                    par.append(prop.clone(keep_id=True))\n", "                    par.append(prop.clone())\n")
# ---- C12
m("C12", "unmerge-keeps-merged-mark", "odml/section.py",
  "            self._link = self.get_relative_path(section)\n\n        self._merged = None\n",
  "            self._link = self.get_relative_path(section)\n")
m("C12", "merge-appends-original-not-copy", "odml/section.py",
  "                mine = obj.clone()\n                mine._merged = obj\n", "                mine = obj\n")
m("C12", "clean-drops-link", "odml/section.py",
  "        if self._link is not None:\n            # TODO get_absolute_path\n",
  "        self._link = None\n        if self._link is not None:\n            # TODO get_absolute_path\n")
# (unmerge-removes-own-children-by-name was equivalent under the quantifier and is gone)
m("C12", "unmerge-keeps-copied-sections-with-subsections", "odml/section.py",
  "            if mine == obj:\n                removals.append(mine)\n",
  "            if mine == obj and not (isinstance(mine, BaseSection) and len(mine.sections)):\n                removals.append(mine)\n")
# ---- C16
# (parse-tag-catches-valueerror-only was equivalent: the constructors raise ValueError only)
m("C16", "dict-section-children-appended-in-one-try", "odml/tools/dict_parser.py",
  "            for child in sec_props + children_secs:\n                try:\n                    sec.append(child)\n                except Exception as exc:\n                    msg = \"%s not added to Section '%s'\\n  %s\" % (child, sec.name, str(exc))\n                    self.error(msg)\n",
  "            try:\n                for child in sec_props + children_secs:\n                    sec.append(child)\n            except Exception as exc:\n                msg = \"%s not added to Section '%s'\\n  %s\" % (child, sec.name, str(exc))\n                self.error(msg)\n")
m("C16", "dict-properties-unguarded", "odml/tools/dict_parser.py",
  "            try:\n                prop = odmlfmt.Property.create(**prop_attrs)\n                odml_props.append(prop)\n            except Exception as exc:\n                msg = \"Property not created (%s)\\n%s\" % (prop_attrs, str(exc))\n                self.error(msg)\n",
  "            prop = odmlfmt.Property.create(**prop_attrs)\n            odml_props.append(prop)\n")
m("C16", "from-file-no-syntaxerror-translation", "odml/tools/xmlparser.py",
  "            if hasattr(xml_file, \"close\"):\n                xml_file.close()\n        except ET.XMLSyntaxError as exc:\n            raise ParserException(exc.msg)\n",
  "            if hasattr(xml_file, \"close\"):\n                xml_file.close()\n        except ET.XMLSyntaxError as exc:\n            raise\n")
m("C16", "lenient-child-append-unguarded", "odml/tools/xmlparser.py",
  "                try:\n                    obj.append(child)\n                except Exception as exc:\n                    # e.g. a second child of the same name\n                    self.error(str(exc), root)\n",
  "                obj.append(child)\n")
# ---- C17
m("C17", "convert-writes-next-to-input", "odml/scripts/odml_convert.py",
  "            outfile = os.path.join(output_dir, \"%s_conv.xml\" % out_name)\n",
  "            outfile = os.path.join(os.path.dirname(file_path), \"%s_conv.xml\" % out_name)\n")
m("C17", "convert-reraises-on-bad-file", "odml/scripts/odml_convert.py",
  "                # Ignore files we cannot parse or convert\n", "                raise\n")
m("C17", "format-converter-overwrites-input", "odml/tools/converters/format_converter.py",
  "            VersionConverter(input_path).write_to_file(output_path)\n",
  "            VersionConverter(input_path).write_to_file(input_path)\n")
m("C17", "tordf-stops-after-first-bad-file", "odml/scripts/odml_to_rdf.py",
  "                report.write(\"[Error] version converting file '%s': '%s'\\n\" %\n                             (file_path, exc))\n",
  "                report.write(\"[Error] version converting file '%s': '%s'\\n\" %\n                             (file_path, exc))\n                break\n")
# ---- C18
m("C18", "publish-before-finalize", "odml/terminology.py",
  "            term = XMLReader(filename=url, ignore_errors=True).from_file(file_obj)\n            term.finalize()\n",
  "            term = XMLReader(filename=url, ignore_errors=True).from_file(file_obj)\n            self[url] = term\n            term.finalize()\n")
m("C18", "start-after-lock-released", "odml/terminology.py",
  "        with self._lock:\n            if url in self or url in self.loading:\n                return\n            self._start_loading(url)\n",
  "        with self._lock:\n            if url in self or url in self.loading:\n                return\n            thread = threading.Thread(target=self._load_and_unregister, args=(url,))\n            self.loading[url] = thread\n        thread.start()\n")
m("C18", "cache-opened-before-fetch", "odml/terminology.py",
  "        try:\n            data = urllib2.urlopen(url).read()\n        except Exception as exc:\n            print(\"failed loading '%s': %s\" % (url, exc))\n            return\n\n",
  "        file_obj = open(cache_file, \"wb\")\n        try:\n            data = urllib2.urlopen(url).read()\n        except Exception as exc:\n            print(\"failed loading '%s': %s\" % (url, exc))\n            return\n\n")
m("C18", "load-without-lock-check-then-index", "odml/templates.py",
  "            thread = self.loading.get(url)\n            started_here = thread is None\n            if started_here:\n                thread = self._start_loading(url)\n\n        thread.join()\n",
  "            started_here = url not in self.loading\n            if started_here:\n                thread = self._start_loading(url)\n\n        if not started_here:\n            thread = self.loading[url]\n        thread.join()\n")
m("C18", "sync-load-bypasses-loader-table", "odml/terminology.py",
  "            thread = self.loading.get(url)\n            started_here = thread is None\n            if started_here:\n                thread = self._start_loading(url)\n\n        thread.join()\n",
  "            thread = self.loading.get(url)\n            started_here = thread is None\n\n        if started_here:\n            return self._load(url)\n        thread.join()\n")
# ---- C19
m("C19", "reset-aliases-default-handlers", "odml/validation.py",
  "        if reset:\n            self._handlers = {}\n            return\n",
  "        if reset:\n            self._handlers = Validation._handlers\n            return\n")
m("C19", "values-check-normalises-in-place", "odml/validation.py",
  "    for val in prop.values:\n        # Do not continue if a value is None\n        if val is None:\n            return\n\n        if dtype.endswith(\"-tuple\"):\n",
  "    if prop.unit == \"\":\n        prop.unit = None\n    if prop.definition is not None:\n        prop.definition = prop.definition.strip()\n    for val in prop.values:\n        # Do not continue if a value is None\n        if val is None:\n            return\n\n        if dtype.endswith(\"-tuple\"):\n")
m("C19", "cardinality-check-registers-globally", "odml/section.py",
  "        valid.register_custom_handler(\"section\", validation.section_sections_cardinality)\n",
  "        validation.Validation.register_handler(\"section\", validation.section_repository_present)\n        valid.register_custom_handler(\"section\", validation.section_sections_cardinality)\n")


def main():
    os.makedirs(OUT, exist_ok=True)
    for name in os.listdir(OUT):
        if name.endswith(".patch"):
            os.remove(os.path.join(OUT, name))
    bad = 0
    for prop, name, path, old, new, count in M:
        full = os.path.join(REPO, path)
        text = open(full).read()
        if text.count(old) < 1:
            print("NOT FOUND: %s-%s in %s" % (prop, name, path))
            bad += 1
            continue
        mutated = text.replace(old, new, count)
        diff = difflib.unified_diff(text.splitlines(True), mutated.splitlines(True),
                                    "a/" + path, "b/" + path)
        with open(os.path.join(OUT, "%s-%s.patch" % (prop, name)), "w") as fobj:
            fobj.writelines(diff)
    print("%d mutants written, %d specs not found" % (len(M) - bad, bad))
    return 1 if bad else 0


if __name__ == "__main__":
    sys.exit(main())
