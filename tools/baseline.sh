#!/bin/sh
# run the pinned baseline test suite of /repo; expect "238 passed" and exactly the 2 known network failures
cd ${1:-/repo} && timeout 900 /venv/bin/python -m pytest -q -p no:cacheprovider --timeout=900 2>&1 | tail -4
