#!/bin/sh
# tools/mutant.sh <check-id> '<sed expression>' <file relative to repo> [runs]: apply a sed mutation to a scratch copy of /repo and run the quick check against it
id=$1; expr=$2; file=$3; runs=${4:-4000}
d=/dev/shm/odml-mut-$$
mkdir -p $d && cp -r /repo/odml $d/odml
sed -i "$expr" $d/$file
if diff -q /repo/$file $d/$file >/dev/null; then echo "MUTATION DID NOT APPLY"; rm -rf $d; exit 3; fi
diff /repo/$file $d/$file | head -6
VERIF_REPO=$d ./vcheck run $id --runs $runs --budget 60 | grep -E "^(violation|OK|HARN|simkit: [0-9])" | head -5
rm -rf $d
