#!/bin/sh
# tools/sweep.sh <seed> <budget_s> <ids...>: thorough tier of the given checks under one seed, summary lines only
seed=$1; budget=$2; shift 2
for p in "$@"; do
  VERIF_SEED=$seed VERIF_BUDGET_S=$budget ./vcheck run $p --tier thorough | grep -E "^(violation|VIOLATION|HARN|OK|simkit: [0-9])"
done
