#!/bin/sh
# tools/seedcheck.sh <id> <k> [tier]: confirm a sub-agent's seeded change $SEEDWORK/out-<id>/patch<k>.diff + demo<k>.py
# (demo passes on the clean tree, patch applies, test suite unchanged, demo fails with the patch) and run our check on it.
id=$1; k=$2; tier=${3:-quick}
out=${SEEDWORK:-/tmp/seedwork}/out-$id
d=/dev/shm/odml-seed-$id-$k-$$
git -C /repo worktree add -q --detach $d HEAD || exit 2
trap 'git -C /repo worktree remove --force '$d' 2>/dev/null' EXIT
cd $d
PYTHONPATH=$d timeout 300 /venv/bin/python $out/demo$k.py > /tmp/seed-demo-clean-$id-$k.log 2>&1; clean=$?
if ! git apply $out/patch$k.diff; then echo "RESULT $id-$k patch does not apply"; exit 3; fi
tests=$(PYTHONPATH=$d timeout 900 /venv/bin/python -m pytest -q -p no:cacheprovider test 2>&1 | tail -1)
PYTHONPATH=$d timeout 300 /venv/bin/python $out/demo$k.py > /tmp/seed-demo-patched-$id-$k.log 2>&1; patched=$?
cd /verif
if [ "$tier" = quick ]; then
  VERIF_REPO=$d ./vcheck run $id --tier quick > /tmp/seed-check-$id-$k.log 2>&1; rc=$?
else
  VERIF_REPO=$d VERIF_BUDGET_S=240 ./vcheck run $id --tier thorough > /tmp/seed-check-$id-$k.log 2>&1; rc=$?
fi
echo "RESULT $id-$k demo_clean=$clean demo_patched=$patched tests='$tests' check_exit=$rc ($tier)"
grep -E "^(violation|HARNESS)" /tmp/seed-check-$id-$k.log | cut -c1-220 | head -4
