#!/bin/sh
# tools/trypatch.sh <patch file> <check-id> [vcheck run args...]: apply a patch to a scratch copy of /repo/odml and run the check against it
patch=$1; id=$2; shift 2
d=/dev/shm/odml-try-$$
mkdir -p $d && cp -r /repo/odml $d/odml
trap 'rm -rf '$d EXIT
if ! patch -p1 -s -d $d -i "$(readlink -f $patch)"; then echo "PATCH DOES NOT APPLY"; exit 3; fi
cd /verif
VERIF_REPO=$d ./vcheck run $id "$@" | grep -E "^(violation|VIOLATION|OK|HARN|KNOWN|simkit: [0-9])" | cut -c1-400 | head -12
