"""Regenerate /verif/MANIFEST.json from the check modules (claimed) and the fixed not-applicable list."""
import importlib, json, os, sys
sys.path.insert(0, '/verif')
ROOT = '/verif'
claimed = sys.argv[1:] or []
base = json.load(open(os.path.join(ROOT, 'MANIFEST.json')))
checks = []
for prop in claimed:
    mod = importlib.import_module('checks.' + prop.lower())
    q_wall = mod.BUDGET['quick'][1]
    t_wall = mod.BUDGET['thorough'][1]
    checks.append({
        "property_id": prop,
        "quick_cmd": "timeout %d ./vcheck run %s --tier quick" % (q_wall * 4 + 120, prop),
        "thorough_cmd": "timeout %d ./vcheck run %s --tier thorough" % (t_wall * 2 + 600, prop),
        "evidence_file": "/verif/evidence/%s.json" % prop,
        "replay_cmd_template": "./vcheck replay {path}",
        "engine": mod.ENGINE,
        "level_claimed": {"category": mod.LEVEL, "text": mod.LEVEL_TEXT, "design_ref": mod.DESIGN_REF},
        "level_note": mod.LEVEL_NOTE,
        "technique": mod.TECHNIQUE,
    })
base["checks"] = checks
na = [e for e in base["not_applicable"] if e["property_id"] not in claimed]
base["not_applicable"] = na
json.dump(base, open(os.path.join(ROOT, 'MANIFEST.json'), 'w'), indent=1)
print("claimed:", [c["property_id"] for c in checks], "n/a:", [e["property_id"] for e in na])
