import sys, json; sys.path.insert(0,'/verif')
from checks import c18
case=json.load(open(sys.argv[1]))
print(case['script'], case['scenario']['cache'], {k:(v['kind'],v['scheme']) for k,v in case['scenario']['nodes'].items()}, case['policy'])
ref=c18.run_script(case,'sequential')
h=c18.run_script(case,'scheduled',forced=case['schedule'])
def firstdiff(a,b,path=''):
    if isinstance(a,dict) and isinstance(b,dict):
        for k in sorted(set(a)|set(b)):
            if a.get(k)!=b.get(k): return firstdiff(a.get(k),b.get(k),path+'.'+k)
    if isinstance(a,list) and isinstance(b,list):
        if len(a)!=len(b): return path+' len %d vs %d: %r | %r'%(len(a),len(b),[x.get('name') if isinstance(x,dict) else x for x in a],[x.get('name') if isinstance(x,dict) else x for x in b])
        for i,(x,y) in enumerate(zip(a,b)):
            if x!=y: return firstdiff(x,y,path+'[%d]'%i)
    return path+': %r vs %r'%(a,b)
for i,(c,r) in enumerate(zip(h['calls'],ref['calls'])):
    print(i,c['op'], str(c['outcome'])[:70], '|', str(r['outcome'])[:70])
    if c['outcome']!=r['outcome'] and c['outcome'][0]=='ret' and r['outcome'][0]=='ret' and c['outcome'][1] and r['outcome'][1]: print('   DIFF', firstdiff(c['outcome'][1], r['outcome'][1]))
for n in h['final_loads']:
    print('final',n, str(h['final_loads'][n])[:60],'|', str(ref['final_loads'][n])[:60])
    if h['final_loads'][n]!=ref['final_loads'][n]: print('   DIFF', firstdiff(h['final_loads'][n][1], ref['final_loads'][n][1]))
print(h['schedule']); print([e for e in h['events']])
print('ref fetch', ref['failed_fetch'], ref['fetches'], 'sched', h['failed_fetch'], h['fetches'], 'probes', h['probes'], 'loaderexc', h['loader_exceptions'])
