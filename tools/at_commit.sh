#!/bin/sh
# tools/at_commit.sh <commit> <command...>: run a command with VERIF_REPO = scratch worktree of /repo at <commit>
c=$1; shift
d=/dev/shm/odml-wt-$$
git -C /repo worktree add -q --detach $d $c || exit 2
VERIF_REPO=$d "$@"; rc=$?
git -C /repo worktree remove --force $d
exit $rc
