"""Developer aid: copy the replay files of given signatures (substring match) to regressions/<id>/<name>.json"""
import json, os, shutil, sys
prop, pattern, name = sys.argv[1], sys.argv[2], sys.argv[3]
d = os.path.join('/verif/replays', prop)
best = None
for f in sorted(os.listdir(d)):
    doc = json.load(open(os.path.join(d, f)))
    if pattern == doc['violation']['signature'] or (pattern.endswith('*') and doc['violation']['signature'].startswith(pattern[:-1])):
        if best is None or len(json.dumps(doc)) < len(json.dumps(best[1])):
            best = (f, doc)
if best is None:
    sys.exit('no replay matches %r' % pattern)
os.makedirs(os.path.join('/verif/regressions', prop), exist_ok=True)
shutil.copy(os.path.join(d, best[0]), os.path.join('/verif/regressions', prop, name + '.json'))
print('kept', best[0], '->', name, best[1]['violation']['signature'])
