"""Developer aid: run N seeds of a check in-process and list violation signatures."""
import sys, importlib, collections, time, traceback
sys.path.insert(0, '/verif')
from simkit import seeds
from simkit.known import Known
mod = importlib.import_module('checks.' + sys.argv[1])
n = int(sys.argv[2])
tier = sys.argv[3] if len(sys.argv) > 3 else 'quick'
known = Known(mod.PROPERTY)
sigs = collections.Counter(); first = {}
t0=time.time(); steps=0; ab=0; errs=collections.Counter()
for i in range(n):
    rs = seeds.run_seed(0, mod.PROPERTY, tier, i)
    try:
        r = mod.explore(rs, tier, known)
    except Exception as e:
        errs[traceback.format_exc()[-600:]] += 1
        continue
    steps += r.stats.get('steps', 0); ab += r.stats.get('abandoned_corrupt_universe', 0)
    if r.violation:
        s = r.violation['signature']; sigs[s]+=1
        first.setdefault(s, (i, len(r.case.get('ops', [])), r.violation['message']))
print('runs', n, 'steps', steps, 'abandoned', ab, 'time %.1f'%(time.time()-t0))
for s,c in sigs.most_common():
    print(c, s, first[s])
for e,c in errs.most_common(5):
    print('ERR x%d' % c, e)
