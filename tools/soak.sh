#!/bin/sh
# tools/soak.sh <first seed> <last seed> <ids...>: quick tier of the given checks under a range of seeds, summary lines only
a=$1; b=$2; shift 2
for sd in $(seq $a $b); do for p in "$@"; do
  VERIF_SEED=$sd ./vcheck run $p --tier quick | grep -E "^(violation|VIOLATION|HARN|OK)" | sed "s/^/seed=$sd /" | cut -c1-260
done; done
