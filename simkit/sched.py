"""Engine THREADS: deterministic scheduling of real threads by baton passing.

Every simulated task is a real threading.Thread that runs only while it holds
the baton; exactly one task runs at any time.  A task gives the baton back at
yield points (thread start / run / join, every access to the instrumented
shared tables, urlopen, lock operations of the shim); the scheduler then picks
the next runnable task from a seeded stream.  The sequence of choices is the
schedule: part of the event log and of the replay file; replay forces it.
"""
import threading as _real


class SimKilled(BaseException):
    """Raised inside a parked task when the run is torn down."""


class SimDeadlock(BaseException):
    """No task is runnable but some are not done (BaseException: library code must not swallow it)."""


class SimStepCap(BaseException):
    """The run exceeded its budget of yield points."""


class Task(object):
    def __init__(self, name):
        self.name = name
        self.sem = _real.Semaphore(0)
        self.state = "ready"       # ready | running | blocked | done
        self.cond = None           # for blocked tasks: callable, true when it may proceed
        self.blocked_on = None
        self.real = None
        self.exc = None
        self.prio = 0.0

    def runnable(self):
        if self.state in ("ready", "running"):
            return True
        if self.state == "blocked" and self.cond is not None and self.cond():
            return True
        return False


class Scheduler(object):
    def __init__(self, rng, policy, clock=None, forced=None, max_steps=2000, line_trace=None):
        self.rng = rng
        self.policy = policy            # dict: {"kind": ..., ...}
        self.clock = clock
        self.forced = list(forced) if forced is not None else None
        self.max_steps = max_steps
        self.main = Task("M")
        self.main.state = "running"
        self.main.prio = rng.random()
        self.tasks = [self.main]
        self.current = self.main
        self.schedule = []
        self.events = []
        self.steps = 0
        self.killed = False
        self.deadlock = False
        self.step_cap = False
        self.diverged = False
        self.probes = {}
        self.preemptions = 0
        self.max_live = 1
        # extended mode: every source line of the named files is a pre-emption point
        self.line_trace = tuple(line_trace) if line_trace else None
        if policy.get("kind") == "pct":
            self.change_points = sorted(rng.randrange(1, 160) for _ in range(policy.get("d", 1)))
        else:
            self.change_points = []

    # -- line-level pre-emption (extended mode) -----------------------------------------------
    def _tracer(self, frame, event, arg):
        if event == "call" and frame.f_code.co_filename.endswith(self.line_trace):
            return self._line
        return None

    def _line(self, frame, event, arg):
        if event == "line" and not self.killed:
            code = frame.f_code
            self.yield_point("line", "%s:%d" % (code.co_filename.rsplit("/", 1)[-1], frame.f_lineno))
        return self._line

    def trace_this_thread(self, on=True):
        if self.line_trace:
            import sys
            sys.settrace(self._tracer if on else None)

    # -- bookkeeping ---------------------------------------------------------------------
    def probe(self, name):
        self.probes[name] = self.probes.get(name, 0) + 1

    def live(self):
        return [t for t in self.tasks if t.state != "done"]

    def me(self):
        return self.current

    # -- choice --------------------------------------------------------------------------
    def _choose(self, cands, me):
        if self.forced is not None:
            if self.forced:
                want = self.forced.pop(0)
                for t in cands:
                    if t.name == want:
                        return t
                self.diverged = True
            return cands[0] if me not in cands else me
        kind = self.policy.get("kind", "random")
        if kind == "random":
            return cands[self.rng.randrange(len(cands))]
        if kind == "run-to-block":
            if me in cands and self.rng.random() < 0.9:
                return me
            return cands[self.rng.randrange(len(cands))]
        if kind == "round-robin":
            order = self.tasks
            start = (order.index(me) + 1) % len(order) if me in order else 0
            for k in range(len(order)):
                t = order[(start + k) % len(order)]
                if t in cands:
                    return t
        if kind == "starve":
            victim = self.policy.get("task", "M")
            others = [t for t in cands if t.name != victim]
            pool = others or cands
            return pool[self.rng.randrange(len(pool))]
        if kind == "pause-write":
            # the task that is about to perform the n-th write to a shared table (set / pop / del /
            # setdefault) is put behind everybody else from there on: the window between two
            # writes of one task is where a second task finds a half-updated table
            last = self.events[-1] if self.events else None
            if last is not None and last[1] in ("tbl.set", "tbl.pop", "tbl.del", "tbl.setdefault") \
                    and last[0] == me.name:
                self.writes_seen = getattr(self, "writes_seen", 0) + 1
                if self.writes_seen == self.policy.get("n", 1):
                    me.prio = -1.0
            return max(cands, key=lambda t: (t.prio, self.rng.random()))
        if kind == "pct":
            if self.change_points and self.steps >= self.change_points[0]:
                self.change_points.pop(0)
                me.prio = -self.rng.random()
            return max(cands, key=lambda t: (t.prio, t.name))
        return cands[self.rng.randrange(len(cands))]

    def _pick(self, me, include_me):
        cands = [t for t in self.tasks if t.runnable() and (include_me or t is not me)]
        if not cands:
            return None
        nxt = self._choose(cands, me)
        self.schedule.append(nxt.name)
        return nxt

    def _tick(self, kind, detail):
        self.steps += 1
        if self.clock is not None:
            self.clock.advance(1)
        self.events.append((self.current.name, kind, detail))
        n_live = len(self.live())
        if n_live > self.max_live:
            self.max_live = n_live
        if n_live >= 3:
            self.probes["three_tasks_live"] = self.probes.get("three_tasks_live", 0) + 1
        if self.steps > self.max_steps:
            self.step_cap = True
            if self.current is self.main:
                raise SimStepCap("more than %d yield points" % self.max_steps)
            # a loader ran into the cap: let the main task report it
            me = self.current
            self.main.state = "running"
            self.current = self.main
            self.main.sem.release()
            me.sem.acquire()
            raise SimKilled()

    # -- baton ---------------------------------------------------------------------------
    def _switch(self, me, nxt):
        if nxt.state == "blocked":
            nxt.cond = None
            nxt.blocked_on = None
        nxt.state = "running"
        self.current = nxt
        nxt.sem.release()
        me.sem.acquire()
        if self.killed:
            raise SimKilled()
        if me is self.main and self.step_cap:
            raise SimStepCap("more than %d yield points" % self.max_steps)
        if self.deadlock and me is self.main:
            raise SimDeadlock(self.describe_block())
        me.state = "running"
        self.current = me

    def yield_point(self, kind, detail=None):
        if self.killed:
            raise SimKilled()
        me = self.current
        self._tick(kind, detail)
        nxt = self._pick(me, include_me=True)
        if nxt is None or nxt is me:
            return
        self.preemptions += 1
        me.state = "ready"
        self._switch(me, nxt)

    def block(self, reason, cond):
        """The current task cannot proceed until cond() holds."""
        me = self.current
        while not cond():
            if self.killed:
                raise SimKilled()
            me.state = "blocked"
            me.cond = cond
            me.blocked_on = reason
            nxt = self._pick(me, include_me=False)
            if nxt is None:
                self.deadlock = True
                me.state = "running"
                if me is self.main:
                    raise SimDeadlock(self.describe_block())
                # a loader found the deadlock: hand the report to the main task
                self.main.state = "running"
                self.current = self.main
                self.main.sem.release()
                me.sem.acquire()
                raise SimKilled()
            self._switch(me, nxt)
        me.state = "running"
        me.cond = None
        me.blocked_on = None

    def describe_block(self):
        return "; ".join("%s %s%s" % (t.name, t.state, " on " + t.blocked_on if t.blocked_on else "")
                         for t in self.tasks if t.state != "done")

    # -- tasks ---------------------------------------------------------------------------
    def spawn(self, fn):
        task = Task("L%d" % len(self.tasks))
        task.prio = self.rng.random() if self.forced is None else 0.0
        self.tasks.append(task)

        def body():
            task.sem.acquire()
            if self.killed:
                task.state = "done"
                return
            try:
                self._tick("thr.run.begin", None)
                self.trace_this_thread(True)
                fn()
            except SimKilled:
                pass
            except BaseException as exc:     # a real thread would die with a traceback
                task.exc = exc
                self.probe("loader_died_with_exception")
            finally:
                self.trace_this_thread(False)
                self._finish(task)

        task.real = _real.Thread(target=body, name="sim-" + task.name, daemon=True)
        task.real.start()
        return task

    def _finish(self, task):
        task.state = "done"
        if self.killed:
            return
        self.events.append((task.name, "thr.exit", None))
        nxt = self._pick(task, include_me=False)
        if nxt is None:
            if any(t.state != "done" for t in self.tasks):
                self.deadlock = True
                nxt = self.main
            else:
                return
        if nxt.state == "blocked":
            nxt.cond = None
            nxt.blocked_on = None
        nxt.state = "running"
        self.current = nxt
        nxt.sem.release()

    def quiesce(self):
        """Main task: wait, through the scheduler, until every loader has finished."""
        self._tick("quiesce", None)
        self.block("quiesce", lambda: all(t.state == "done" for t in self.tasks if t is not self.main))

    def teardown(self):
        """Release every parked task so that its real thread unwinds and ends."""
        self.killed = True
        for t in self.tasks:
            if t is self.main or t.real is None:
                continue
            for _ in range(3):
                if not t.real.is_alive():
                    break
                t.sem.release()
                t.real.join(timeout=2.0)
        leaked = [t.name for t in self.tasks if t.real is not None and t.real.is_alive()]
        return leaked


# ---------------------------------------------------------------------------------------- shims
class SimThreading(object):
    """Stands in for the module ``threading`` as seen from odml.terminology / odml.templates."""

    def __init__(self, sched):
        self._sched = sched
        sim = self

        class Thread(object):
            def __init__(self, group=None, target=None, name=None, args=(), kwargs=None, daemon=None):
                self._target, self._args, self._kwargs = target, args, kwargs or {}
                self._task = None
                self.name = name
                self.daemon = daemon

            def run(self):
                if self._target is not None:
                    self._target(*self._args, **self._kwargs)

            def start(self):
                s = sim._sched
                s.yield_point("thr.start.pre")
                if self._task is not None:
                    raise RuntimeError("threads can only be started once")
                s.starts = getattr(s, "starts", 0) + 1
                if getattr(s, "start_fault", None) and s.starts == s.start_fault:
                    # fault: the system cannot start another thread just now
                    s.probe("thread_start_failed")
                    s.fault_fired = True
                    raise RuntimeError("can't start new thread")
                self._task = s.spawn(self.run)
                self.name = self.name or self._task.name
                s.yield_point("thr.start.post")

            def join(self, timeout=None):
                s = sim._sched
                s.yield_point("thr.join")
                if self._task is None:
                    s.probe("join_before_start")
                    raise RuntimeError("cannot join thread before it is started")
                if self._task is s.current:
                    raise RuntimeError("cannot join current thread")
                task = self._task
                if task.state != "done":
                    s.probe("join_on_running_thread")
                    if getattr(s.current, "name", None) != "M":
                        s.probe("loader_joins_loader")
                s.block("join(%s)" % task.name, lambda: task.state == "done")

            def is_alive(self):
                return self._task is not None and self._task.state != "done"

            isAlive = is_alive

        class Lock(object):
            def __init__(self):
                self._owner = None
                self._count = 0
                self._reentrant = False

            def acquire(self, blocking=True, timeout=-1):
                s = sim._sched
                s.yield_point("lock.acquire")
                me = s.current
                if self._reentrant and self._owner is me:
                    self._count += 1
                    return True
                if self._owner is not None and not blocking:
                    return False
                if self._owner is not None:
                    s.probe("lock_contended")
                s.block("lock", lambda: self._owner is None)
                self._owner = me
                self._count = 1
                return True

            def release(self):
                s = sim._sched
                if self._owner is None:
                    raise RuntimeError("release unlocked lock")
                self._count -= 1
                if self._count <= 0:
                    self._owner = None
                    self._count = 0
                s.yield_point("lock.release")

            def locked(self):
                return self._owner is not None

            def __enter__(self):
                self.acquire()
                return self

            def __exit__(self, *exc):
                self.release()
                return False

        class RLock(Lock):
            def __init__(self):
                Lock.__init__(self)
                self._reentrant = True

        class Event(object):
            def __init__(self):
                self._flag = False

            def is_set(self):
                return self._flag

            def set(self):
                self._flag = True
                sim._sched.yield_point("event.set")

            def clear(self):
                self._flag = False

            def wait(self, timeout=None):
                s = sim._sched
                s.yield_point("event.wait")
                s.block("event", lambda: self._flag)
                return True

        class Condition(object):
            def __init__(self, lock=None):
                self._lock = lock or RLock()
                self._waiters = []

            def acquire(self, *a, **k):
                return self._lock.acquire(*a, **k)

            def release(self):
                return self._lock.release()

            def __enter__(self):
                self._lock.acquire()
                return self

            def __exit__(self, *exc):
                self._lock.release()
                return False

            def wait(self, timeout=None):
                s = sim._sched
                token = [False]
                self._waiters.append(token)
                saved = self._lock._count
                self._lock._owner, self._lock._count = None, 0
                s.yield_point("cond.wait")
                s.block("condition", lambda: token[0])
                s.block("lock", lambda: self._lock._owner is None)
                self._lock._owner, self._lock._count = s.current, saved
                return True

            def notify(self, n=1):
                for token in self._waiters[:n]:
                    token[0] = True
                del self._waiters[:n]
                sim._sched.yield_point("cond.notify")

            def notify_all(self):
                self.notify(len(self._waiters))

            notifyAll = notify_all

        class Semaphore(object):
            def __init__(self, value=1):
                self._value = value

            def acquire(self, blocking=True, timeout=None):
                s = sim._sched
                s.yield_point("sem.acquire")
                if self._value <= 0 and not blocking:
                    return False
                s.block("semaphore", lambda: self._value > 0)
                self._value -= 1
                return True

            def release(self, n=1):
                self._value += n
                sim._sched.yield_point("sem.release")

            def __enter__(self):
                self.acquire()
                return self

            def __exit__(self, *exc):
                self.release()
                return False

        self.Thread, self.Lock, self.RLock = Thread, Lock, RLock
        self.Event, self.Condition, self.Semaphore = Event, Condition, Semaphore
        self.BoundedSemaphore = Semaphore

    def current_thread(self):
        task = self._sched.current

        class _T(object):
            name = task.name
            ident = id(task)
        return _T()

    currentThread = current_thread

    def get_ident(self):
        return id(self._sched.current)

    def __getattr__(self, name):
        return getattr(_real, name)


REAL_SYNC_TYPES = (type(_real.Lock()), type(_real.RLock()), _real.Event, _real.Condition,
                   _real.Semaphore)


def make_yield_dict(base, sched, table):
    """Subclass of base (a dict type) whose accesses are yield points."""

    class Yielding(base):
        _sim_table = table

        def __contains__(self, key):
            sched.yield_point("tbl.contains", table)
            res = dict.__contains__(self, key)
            if res:
                seen = self.__dict__.setdefault("_sim_seen", {})
                seen[(sched.current.name, key)] = True
            return res

        def __getitem__(self, key):
            sched.yield_point("tbl.get", table)
            try:
                return dict.__getitem__(self, key)
            except KeyError:
                seen = self.__dict__.get("_sim_seen", {})
                if seen.get((sched.current.name, key)):
                    sched.probe("popped_between_check_and_index")
                raise

        def __setitem__(self, key, value):
            sched.yield_point("tbl.set", table)
            dict.__setitem__(self, key, value)

        def __delitem__(self, key):
            sched.yield_point("tbl.del", table)
            dict.__delitem__(self, key)

        def get(self, key, default=None):
            sched.yield_point("tbl.get", table)
            return dict.get(self, key, default)

        def pop(self, key, *default):
            sched.yield_point("tbl.pop", table)
            return dict.pop(self, key, *default)

        def setdefault(self, key, default=None):
            sched.yield_point("tbl.set", table)
            return dict.setdefault(self, key, default)

        def clear(self):
            sched.yield_point("tbl.clear", table)
            dict.clear(self)

        def update(self, *args, **kwargs):
            sched.yield_point("tbl.set", table)
            dict.update(self, *args, **kwargs)

        def __iter__(self):
            sched.yield_point("tbl.iter", table)
            return iter(list(dict.keys(self)))

    Yielding.__name__ = "Yielding" + base.__name__
    return Yielding
