"""Operation language of the SESSION engine and its interpreter.

An op is a JSON object {"op": name, ...args}.  Object references are
[kind, k]: the k-th registered object of that kind, modulo the number of such
objects, so that every op stays applicable when the shrinker deletes earlier
ops.  Values are tagged JSON.  The interpreter drives the real library through
its public API only.
"""
import datetime as _dt
import os

from . import boot  # noqa: F401
import odml
from odml import dtypes as _dtypes
from .universe import kind_of, canon

SKIP = object()

KINDS = {
    "doc": ("doc",), "sec": ("sec",), "prop": ("prop",),
    "cont": ("doc", "sec"), "node": ("sec", "prop"), "any": ("doc", "sec", "prop"),
}

JUNK = {"str": "junk", "int": 42, "obj": object(), "dict": {"a": 1}, "float": 1.5}


class Skip(Exception):
    """The op cannot be resolved in the current universe (e.g. no object of the
    referenced kind exists): logged as skipped, never judged."""


def decode_value(val, U):
    """Tagged JSON -> Python value."""
    if isinstance(val, dict):
        if "date" in val:
            return _dt.date.fromisoformat(val["date"])
        if "time" in val:
            return _dt.time.fromisoformat(val["time"])
        if "datetime" in val:
            return _dt.datetime.fromisoformat(val["datetime"])
        if "list" in val:
            return [decode_value(v, U) for v in val["list"]]
        if "tuple" in val:
            return tuple(decode_value(v, U) for v in val["tuple"])
        if "set" in val:
            return set(decode_value(v, U) for v in val["set"])
        if "iter" in val:
            return iter([decode_value(v, U) for v in val["iter"]])
        if "alias" in val:
            if not U.aliases:
                raise Skip("no alias")
            return U.aliases[val["alias"] % len(U.aliases)]
        if "dict" in val:
            return dict(val["dict"])
        if "dtype_member" in val:
            return getattr(_dtypes.DType, val["dtype_member"])
        if "float" in val:
            return float(val["float"])
        if "junk" in val:
            return JUNK[val["junk"]]
        raise ValueError("unknown value tag %r" % (val,))
    return val


class Interp(object):
    def __init__(self, U, env):
        self.U = U
        self.env = env

    # -- references -------------------------------------------------------------
    def resolve(self, ref):
        if ref is None:
            return None
        if not isinstance(ref, list):
            raise ValueError("bad ref %r" % (ref,))
        tag = ref[0]
        if tag == "none":
            return None
        if tag == "junk":
            return JUNK[ref[1]]
        if tag == "lst":
            return [self.resolve(r) for r in ref[1]]
        pool = self.U.of_kind(*KINDS[tag])
        if not pool:
            raise Skip("no object of kind %s" % tag)
        return pool[ref[1] % len(pool)]

    def val(self, v):
        return decode_value(v, self.U)

    # -- driver -------------------------------------------------------------------
    def resolve_args(self, op):
        """Resolve every reference / value of the op against the current universe."""
        out = {}
        for key, v in op.items():
            if key in META_KEYS:
                continue
            if key in REF_KEYS:
                out[key] = self.resolve(v)
            elif key in REFLIST_KEYS:
                out[key] = [self.resolve(r) for r in v]
            elif key in VALUE_KEYS:
                out[key] = self.val(v)
            else:
                out[key] = v
        return out

    def apply(self, op, args):
        handler = getattr(self, "op_" + op["op"])
        try:
            res = handler(**args)
        except Skip:
            raise
        except Exception as exc:  # the library refused (or crashed): an outcome, not an error
            return ("exc", type(exc).__name__, str(exc)[:200])
        return ("ret", res)

    def _reg(self, obj):
        return self.U.register(obj)

    # -- constructors ---------------------------------------------------------------
    def op_new_doc(self, author=None, date=None, version=None, repository=None, oid=None):
        doc = odml.Document(author=author, date=date, version=version,
                            repository=repository, oid=oid)
        return {"new": self._reg(doc), "id_in": oid}

    def op_new_sec(self, name=None, type="n.s.", parent=None, oid=None, definition=None,
                   reference=None, repository=None, link=None, include=None,
                   sec_card=None, prop_card=None):
        sec = odml.Section(name=name, type=type, parent=parent, oid=oid,
                           definition=definition, reference=reference,
                           repository=repository, link=link, include=include,
                           sec_cardinality=sec_card, prop_cardinality=prop_card)
        return {"new": self._reg(sec), "id_in": oid}

    def op_new_prop(self, name=None, values=None, parent=None, dtype=None, oid=None, unit=None,
                    uncertainty=None, reference=None, definition=None, dependency=None,
                    dependency_value=None, value_origin=None, val_card=None, value=None):
        if value is not None:
            prop = odml.Property(name=name, value=value, parent=parent, dtype=dtype, oid=oid,
                                 unit=unit, uncertainty=uncertainty, reference=reference,
                                 definition=definition, dependency=dependency,
                                 dependency_value=dependency_value, value_origin=value_origin,
                                 val_cardinality=val_card)
            return {"new": self._reg(prop), "id_in": oid}
        prop = odml.Property(name=name, values=values, parent=parent, dtype=dtype, oid=oid,
                             unit=unit, uncertainty=uncertainty, reference=reference,
                             definition=definition, dependency=dependency,
                             dependency_value=dependency_value, value_origin=value_origin,
                             val_cardinality=val_card)
        return {"new": self._reg(prop), "id_in": oid}

    def op_create_section(self, t, name=None, type="n.s.", oid=None, link=None, definition=None,
                          repository=None):
        sec = t.create_section(name=name, type=type, oid=oid, link=link, definition=definition,
                               repository=repository)
        return {"new": self._reg(sec), "id_in": oid}

    def op_create_property(self, t, name=None, values=None, dtype=None, oid=None):
        prop = t.create_property(name=name, values=values, dtype=dtype, oid=oid)
        return {"new": self._reg(prop), "id_in": oid}

    # -- structure ------------------------------------------------------------------
    def op_append(self, t, x):
        t.append(x)

    def op_insert(self, t, i, x):
        t.insert(i, x)

    def op_extend(self, t, xs):
        t.extend(xs)

    def op_extend_raw(self, t, x):
        t.extend(x)

    def op_remove(self, t, x):
        t.remove(x)

    def op_set_parent(self, x, p):
        x.parent = p

    def op_setitem(self, t, which, i, x, key=None):
        lst = t.sections if which == "sections" else t.properties
        lst[i if key is None else key] = x

    def op_bulk_create(self, t, n=26, kind="sec"):
        made = []
        for k in range(n):
            if kind == "sec":
                made.append(self._reg(t.create_section(name="m%02d" % k, type="t1")))
            else:
                made.append(self._reg(t.create_property(name="m%02d" % k, values=k)))
        return {"made": len(made)}

    def op_clone_twice(self, x, second="clone_keep"):
        """first = x.clone(); then, before anything has looked at first, a keep_id copy of it."""
        if kind_of(x) == "prop":
            first = x.clone()
        else:
            first = x.clone(children=True)
        if second == "export_leaf" and kind_of(first) != "doc":
            again = first.export_leaf()
        elif kind_of(first) == "prop":
            again = first.clone(keep_id=True)
        else:
            again = first.clone(children=True, keep_id=True)
        return {"new": self._reg(first), "again": self._reg(again), "of": self.U.index(x)}

    def op_reorder(self, x, i):
        return {"old": x.reorder(i)}

    def op_rename(self, x, name):
        x.name = name

    def op_new_id(self, x, oid=None):
        x.new_id(oid)

    def op_set_attr(self, x, attr, v):
        setattr(x, attr, v)

    # -- values -----------------------------------------------------------------------
    def op_set_values(self, x, v):
        x.values = v

    def op_set_dtype(self, x, v):
        x.dtype = v

    def op_v_append(self, x, v, strict=True):
        x.append(v, strict=strict)

    def op_v_extend(self, x, v, strict=True):
        x.extend(v, strict=strict)

    def op_v_extend_prop(self, x, y):
        x.extend(y)

    def op_v_insert(self, x, i, v, strict=True):
        x.insert(i, v, strict=strict)

    def op_v_setitem(self, x, i, v):
        x[i] = v

    def op_v_item_mutate(self, x, i, j, v):
        """In-place edit of one component of an n-tuple value through item access: p[i][j] = v."""
        if not len(x):
            raise Skip("no values")
        item = x[i % len(x)]
        if not isinstance(item, list) or not item:
            raise Skip("value is not a list")
        item[j % len(item)] = v

    def op_v_remove(self, x, v):
        x.remove(v)

    def op_v_remove_at(self, x, i):
        vals = x.values
        if not vals:
            raise Skip("no values")
        x.remove(vals[i % len(vals)])

    def op_reassign_values(self, x):
        x.values = x.values

    # -- cardinalities ------------------------------------------------------------------
    def op_set_card(self, x, which, v):
        setattr(x, CARD_ATTR[which], v)

    def op_set_card2(self, x, which, lo=None, hi=None):
        getattr(x, CARD_SETTER[which])(lo, hi)

    # -- copies ---------------------------------------------------------------------------
    def op_clone(self, x, children=True, keep_id=False):
        if kind_of(x) == "prop":
            new = x.clone(keep_id=keep_id)
        else:
            new = x.clone(children=children, keep_id=keep_id)
        return {"new": self._reg(new), "of": self.U.index(x)}

    def op_template_clone(self, f, i=0, children=True, keep_id=False):
        """TemplateHandler.clone_section on a document of the durable store (file: URL).  The
        template document the handler keeps is registered, so that the frame monitor watches it."""
        import odml.templates as TP
        if not self.U.files:
            raise Skip("no file")
        ent = self.U.files[f % len(self.U.files)]
        if ent["backend"] != "xml":
            raise Skip("templates are XML files")
        if self.U.templates is None:
            self.U.templates = TP.TemplateHandler()
        url = "file://" + ent["path"]
        doc = self.U.templates.load(url)
        if doc is None or not len(doc.sections):
            raise Skip("template not loadable or empty")
        self._reg(doc)
        sec = doc.sections[i % len(doc.sections)]
        of = self._reg(sec)
        new = self.U.templates.clone_section(url, sec.name, children=children, keep_id=keep_id)
        return {"new": self._reg(new), "of": of}

    def op_export_leaf(self, x):
        new = x.export_leaf()
        return {"new": self._reg(new), "of": self.U.index(x)}

    def op_get_values(self, x):
        vals = x.values
        self.U.aliases.append(vals)
        return {"alias": len(self.U.aliases) - 1}

    def op_hold_list(self, v):
        """The harness creates a list it will later pass as values= (and keep)."""
        self.U.aliases.append(list(v))
        return {"alias": len(self.U.aliases) - 1}

    def op_alias_mutate(self, a, how, i=0, v=None, j=0):
        if not self.U.aliases:
            raise Skip("no alias")
        lst = self.U.aliases[a % len(self.U.aliases)]
        if how == "append":
            lst.append(v)
        elif how == "clear":
            del lst[:]
        elif how == "set":
            if not lst:
                raise Skip("empty alias")
            lst[i % len(lst)] = v
        elif how == "nested_set":
            nested = [e for e in lst if isinstance(e, list)]
            if not nested:
                raise Skip("no nested list")
            inner = nested[i % len(nested)]
            if not inner:
                raise Skip("empty nested list")
            inner[j % len(inner)] = v
        elif how == "nested_append":
            nested = [e for e in lst if isinstance(e, list)]
            if not nested:
                raise Skip("no nested list")
            nested[i % len(nested)].append(v)
        else:
            raise ValueError(how)

    # -- merge / links --------------------------------------------------------------------
    def op_merge(self, t, x, strict=True):
        t.merge(x, strict=strict)
        if kind_of(t) == "sec" and kind_of(x) == "sec" and t is not x:
            # remembered so that the generator can merge the same pair again later
            pair = (self.U.index(t), self.U.index(x))
            if pair not in self.U.merges:
                self.U.merges.append(pair)

    def op_merge_check(self, t, x, strict=True):
        """The question 'could this be merged?' asked on its own: a query (whatever it answers,
        nothing changes), remembered like a merge so that the pair meets again after later edits."""
        try:
            t.merge_check(x, strict)
        finally:
            if kind_of(t) == "sec" and kind_of(x) == "sec" and t is not x:
                pair = (self.U.index(t), self.U.index(x))
                if pair not in self.U.merges:
                    self.U.merges.append(pair)
                self.U.__dict__.setdefault("checked", []).append(pair + (bool(strict),))

    def op_merge_self(self, x):
        x.merge()

    def op_set_link(self, x, path):
        x.link = path

    def op_set_include(self, x, f=None, frag=None, url=None):
        """include = URL#path; f: index of a file of the durable store (file: URL), or a literal url."""
        if url is None:
            if not self.U.files:
                raise Skip("no file")
            ent = self.U.files[f % len(self.U.files)]
            url = "file://" + ent["path"]
        if frag is not None:
            url = url + "#" + frag
        x.include = url

    def op_set_repository(self, x, f=0):
        """repository = file: URL of a document saved earlier in the run: a terminology that loads
        (Sections below x inherit it)."""
        if not self.U.files:
            raise Skip("no file")
        ent = self.U.files[f % len(self.U.files)]
        x.repository = "file://" + ent["path"]

    def op_finalize(self, d):
        if kind_of(d) == "doc" and self.U.links_cyclic(d):
            raise Skip("links form a cycle: finalize would not return")
        d.finalize()

    def op_clean(self, x):
        x.clean()

    # -- validation -----------------------------------------------------------------------------
    def _issues(self, errors):
        out = []
        for err in errors:
            vid = err.validation_id
            out.append([self.U.ref(err.obj), getattr(vid, "name", str(vid)), err.rank, err.msg])
        out.sort(key=repr)
        return out

    def op_validate(self, x):
        from odml.validation import Validation
        val = Validation(x)
        first = self._issues(val.errors)
        again = self._issues(Validation(x).errors)
        val.run_validation()
        rerun = self._issues(val.errors)
        return {"issues": first, "again": again, "rerun": rerun}

    def op_doc_validate(self, d):
        from odml.validation import Validation
        first = self._issues(d.validate().errors)
        # Document.validate() and Validation(doc) are two observation points of one validation
        return {"issues": first, "again": self._issues(d.validate().errors),
                "rerun": self._issues(Validation(d).errors)}

    def op_validate_keep(self, x):
        """A Validation the caller keeps (to run it again later, after edits)."""
        from odml.validation import Validation
        val = Validation(x)
        self.U.validations.append((val, x))
        return {"kept": len(self.U.validations) - 1, "issues": self._issues(val.errors)}

    def op_validate_rerun(self, k, report=False):
        """Run a kept Validation again and compare it with a fresh one of the same object: both
        look at the same, now unchanged, objects."""
        from odml.validation import Validation
        if not self.U.validations:
            raise Skip("no kept validation")
        val, x = self.U.validations[k % len(self.U.validations)]
        text = fresh_text = None
        if report:
            text = val.report()
        else:
            val.run_validation()
        kept = self._issues(val.errors)
        fresh_val = Validation(x)
        fresh = self._issues(fresh_val.errors)
        if report:
            fresh_text = fresh_val.report()
        return {"issues": kept, "again": fresh, "rerun": kept, "report": text,
                "report_fresh": fresh_text}

    def op_validate_optional(self, x, rule="section_repository_present"):
        """A custom validation that applies one of the library's own optional rules."""
        from odml import validation as V
        val = V.Validation(x, validate=False, reset=True)
        klass = "property" if rule.startswith("property") else "section"
        if rule == "section_unique_ids":
            klass = "odML" if kind_of(x) == "doc" else "section"
        elif rule == "property_unique_ids":
            klass = "section"
        val.register_custom_handler(klass, getattr(V, rule))
        val.run_validation()
        first = self._issues(val.errors)
        val.run_validation()
        return {"issues": first, "again": self._issues(val.errors), "rerun": first}

    def op_validate_custom(self, x, klass="section", report=False, raising=False, keep=False):
        from odml.validation import Validation, ValidationError, IssueID

        def marker(obj):
            yield ValidationError(obj, "simkit-marker", "warning", IssueID.custom_validation)

        if raising:
            # a rule of the caller that cannot deal with some objects (it raises for every second
            # object it meets): whatever the instance does with that, it does it again when it
            # is run again on the same unchanged objects
            def picky(obj):
                if len(getattr(obj, "name", "") or "") % 2 == 0:
                    raise RuntimeError("simkit: rule cannot deal with %r" % getattr(obj, "name", None))
                yield ValidationError(obj, "simkit-marker", "warning", IssueID.custom_validation)
            val = Validation(x, validate=False, reset=True)
            val.register_custom_handler(klass, picky)
            val.register_custom_handler(klass, marker)
            runs = []
            for _ in range(2):
                try:
                    val.run_validation()
                    runs.append(["ret", self._issues(val.errors)])
                except Exception as exc:
                    runs.append(["exc", type(exc).__name__])
            return {"issues": runs[0], "again": runs[1], "rerun": runs[0], "empty_at_start": True,
                    "raising": True}
        # a reset instance must start without any rule: running it reports nothing
        blank = Validation(x, validate=False, reset=True)
        blank.run_validation()
        empty_at_start = (list(blank.errors) == [])
        val = Validation(x, validate=False, reset=True)
        val.register_custom_handler(klass, marker)
        if report:
            rep = val.report()
        else:
            val.run_validation()
            rep = None
        first = self._issues(val.errors)

        # a rule added to an instance that has already run is applied from the next run on
        def marker2(obj):
            yield ValidationError(obj, "simkit-marker-2", "warning", IssueID.custom_validation)
        val.register_custom_handler(klass, marker2)
        val.run_validation()
        second = self._issues(val.errors)
        late_ok = sorted(i[:3] for i in second if i[3] == "simkit-marker-2") == \
            sorted(i[:3] for i in first if i[3] == "simkit-marker")
        out = {"issues": first, "report": rep, "empty_at_start": empty_at_start,
               "late_rule_applied": late_ok}
        if keep:
            # the caller keeps a custom Validation of its own (one rule, a function nobody else
            # holds) and comes back to it later: op custom_again
            mine = Validation(x, validate=False, reset=True)
            mine.register_custom_handler(klass, self._fresh_marker())
            import gc
            gc.collect()
            mine.run_validation()
            self.U.__dict__.setdefault("kept_custom", []).append(
                {"val": mine, "x": x, "klass": klass, "issues": self._issues(mine.errors)})
            # what the rule reports when the caller holds on to the function as well
            held = self._fresh_marker()
            twin = Validation(x, validate=False, reset=True)
            twin.register_custom_handler(klass, held)
            twin.run_validation()
            out["kept_issues"] = self._issues(mine.errors)
            out["kept_expected"] = self._issues(twin.errors)
        return out

    @staticmethod
    def _fresh_marker():
        from odml.validation import ValidationError, IssueID

        def kept_marker(obj):
            yield ValidationError(obj, "simkit-marker", "warning", IssueID.custom_validation)
        return kept_marker

    def op_custom_again(self, k=0, rerun=False):
        """A kept custom Validation: its issue list is what it was (nothing has run it since),
        and run again it reports what a new custom Validation with the same rule reports."""
        from odml.validation import Validation
        kept = self.U.__dict__.get("kept_custom") or []
        if not kept:
            raise Skip("no kept custom validation")
        ent = kept[k % len(kept)]
        now = self._issues(ent["val"].errors)
        out = {"stored": ent["issues"], "now": now}
        if rerun:
            ent["val"].run_validation()
            again = self._issues(ent["val"].errors)
            twin = Validation(ent["x"], validate=False, reset=True)
            held = self._fresh_marker()
            twin.register_custom_handler(ent["klass"], held)
            twin.run_validation()
            out.update({"rerun": again, "twin": self._issues(twin.errors)})
            ent["issues"] = again
        return out

    # -- durable store ------------------------------------------------------------------------------
    def _path(self, name, backend):
        return os.path.join(self.env.sandbox, "store", "%s.%s" % (name, backend.lower()))

    def op_save(self, d, name, backend="xml"):
        os.makedirs(os.path.join(self.env.sandbox, "store"), exist_ok=True)
        path = self._path(name, backend)
        odml.save(d, path, backend)
        self.U.files.append({"path": path, "backend": backend})
        return {"file": len(self.U.files) - 1}

    def op_load(self, f):
        if not self.U.files:
            raise Skip("no file")
        ent = self.U.files[f % len(self.U.files)]
        doc = odml.load(ent["path"], ent["backend"])
        if doc is None:
            # what the JSON / YAML front end does for text it cannot decode (judged by C16)
            raise ValueError("odml.load returned None")
        return {"new": self._reg(doc)}

    def op_damage_file(self, f, how="version"):
        """A storage fault on a file of the durable store (between a save and a later load)."""
        if not self.U.files:
            raise Skip("no file")
        ent = self.U.files[f % len(self.U.files)]
        with open(ent["path"], "rb") as fobj:
            data = fobj.read()
        if how == "version":
            new = data.replace(b'version="1.1"', b'version="9.9"', 1) \
                .replace(b'"odml-version": "1.1"', b'"odml-version": "9.9"', 1) \
                .replace(b"odml-version: '1.1'", b"odml-version: '9.9'", 1)
        elif how == "truncate":
            new = data[:max(1, len(data) // 2)]
        elif how == "empty":
            new = b""
        else:
            new = data[:len(data) // 3] + b"\x00\xff garbage \x00" + data[len(data) // 3 + 12:]
        with open(ent["path"], "wb") as fobj:
            fobj.write(new)
        return {"file": f % len(self.U.files), "changed": new != data}

    def op_restart(self, d, backend="xml", via="file", clean=False):
        """Save d, forget every in-memory object reachable from it, load the file
        into new objects: only durable state survives."""
        os.makedirs(os.path.join(self.env.sandbox, "store"), exist_ok=True)
        path = self._path("restart%d" % len(self.U.files), backend)
        if clean:
            return self._restart_clean(d, path, backend)
        if via == "file":
            odml.save(d, path, backend)
            self.U.files.append({"path": path, "backend": backend})
            new = odml.load(path, backend)
        elif via == "writer":
            # the application keeps one XMLWriter per document and comes back to it after
            # every round of edits: each time it writes the document as it is then
            from odml.tools.xmlparser import XMLWriter
            path = self._path("restart%d" % len(self.U.files), "xml")
            kept = self.U.__dict__.setdefault("writers", {})
            key = self.U.index(d)
            if key not in kept:
                kept[key] = XMLWriter(d)
                str(kept[key])          # looked at once before it is used
            kept[key].write_file(path)
            self.U.files.append({"path": path, "backend": "xml"})
            new = odml.load(path, "xml")
        else:
            from odml.tools.odmlparser import ODMLWriter, ODMLReader
            text = ODMLWriter(backend).to_string(d)
            new = ODMLReader(backend).from_string(text)
        return {"new": self._reg(new), "of": self.U.index(d)}

    def _restart_clean(self, d, path, backend):
        """The documented cycle for a document with resolved links: clean, save, load, finalize.
        Returns the cardinalities per path before and after (what C09 says survives)."""
        if self.U.links_cyclic(d):
            raise Skip("links form a cycle")

        def cards(doc):
            out = {}
            for obj in self.U.subtree(doc):
                knd = kind_of(obj)
                try:
                    if knd == "sec":
                        out["S " + obj.get_path()] = [canon(obj.sec_cardinality), canon(obj.prop_cardinality)]
                    elif knd == "prop":
                        out["P " + obj.get_path()] = [canon(obj.val_cardinality)]
                except Exception:
                    pass
            return out
        before = cards(d)
        d.clean()
        try:
            odml.save(d, path, backend)
            self.U.files.append({"path": path, "backend": backend})
            new = odml.load(path, backend)
            new.finalize()
        finally:
            d.finalize()
        return {"new": self._reg(new), "of": self.U.index(d), "cards_before": before,
                "cards_after": cards(new), "cards_original": cards(d)}

    def op_add_raising_rule(self, klass="property", names=("c",)):
        """Fault: the application registers a default validation rule that cannot deal with
        some objects (it raises for the given names).  Constructors, savers and loaders run the
        default rules; what they were doing must not be left half done."""
        from odml.validation import Validation
        bad = set(names)

        def simkit_raising_rule(obj):
            if getattr(obj, "name", None) in bad:
                raise RuntimeError("simkit: a rule of the application cannot handle %r" % (obj.name,))
            return iter(())
        Validation.register_handler(klass, simkit_raising_rule)

    def op_deep_chain(self, t, name, n=34):
        """n Sections nested in each other below t, the innermost with a Property."""
        cur = t
        for i in range(n):
            cur = odml.Section(name=name if i == 0 else "lvl%d" % i, type="t1", parent=cur)
        odml.Property(name="bottom", values=[1, 2, 3], parent=cur)
        return {"new": self.U.index(t)}

    def op_reseed(self, k=0):
        """The application seeds the random module for purposes of its own (a reproducible
        experiment): an event of the environment, not of the library."""
        import random
        random.seed(k)

    def op_advance(self, s):
        self.env.clock.advance(s)


META_KEYS = {"op", "valid", "labels", "note"}
REF_KEYS = {"t", "x", "y", "p", "d", "parent"}
REFLIST_KEYS = {"xs"}
VALUE_KEYS = {"v", "values", "value", "date", "val_card", "sec_card", "prop_card", "uncertainty", "dtype"}

CARD_ATTR = {"val": "val_cardinality", "sec": "sec_cardinality", "prop": "prop_cardinality"}
CARD_SETTER = {"val": "set_values_cardinality", "sec": "set_sections_cardinality",
               "prop": "set_properties_cardinality"}
