"""Seams: every source of nondeterminism the properties touch goes behind one.

All seams are installed by monkeypatching from outside; /repo needs no hook.
"""
import contextlib
import datetime as _real_dt
import io
import os
import shutil
import sys
import tempfile
import uuid as _uuid
import warnings

from . import boot  # noqa: F401  (puts the tree under test on sys.path)

EPOCH0 = 1600000000  # 2020-09-13T12:26:40Z, start of simulated time


class SimClock(object):
    """Integer-second clock; advanced only by the simulator."""

    def __init__(self, start=EPOCH0):
        self.t = int(start)
        self.start = int(start)

    def now(self):
        return self.t

    def advance(self, seconds):
        self.t += int(seconds)

    @property
    def elapsed(self):
        return self.t - self.start


class _DateTimeShim(object):
    """Stands in for the class ``datetime.datetime``: now()/today() read the
    simulated clock, everything else is the real class (and returns real
    instances, so stored values keep their genuine Python type)."""

    def __init__(self, clock):
        self._clock = clock

    def now(self, tz=None):
        return _real_dt.datetime.fromtimestamp(self._clock.now(), tz)

    def today(self):
        return self.now()

    def utcnow(self):
        return _real_dt.datetime.utcfromtimestamp(self._clock.now())

    def __call__(self, *args, **kwargs):
        return _real_dt.datetime(*args, **kwargs)

    def __instancecheck__(self, inst):
        return isinstance(inst, _real_dt.datetime)

    def __subclasscheck__(self, sub):
        return issubclass(sub, _real_dt.datetime)

    def __getattr__(self, name):
        return getattr(_real_dt.datetime, name)


class _DateShim(object):
    def __init__(self, clock):
        self._clock = clock

    def today(self):
        return _real_dt.datetime.fromtimestamp(self._clock.now()).date()

    def __call__(self, *args, **kwargs):
        return _real_dt.date(*args, **kwargs)

    def __instancecheck__(self, inst):
        return isinstance(inst, _real_dt.date)

    def __subclasscheck__(self, sub):
        return issubclass(sub, _real_dt.date)

    def __getattr__(self, name):
        return getattr(_real_dt.date, name)


class _DatetimeModuleShim(object):
    """Stands in for the module ``datetime``."""

    def __init__(self, clock):
        self.datetime = _DateTimeShim(clock)
        self.date = _DateShim(clock)

    def __getattr__(self, name):
        return getattr(_real_dt, name)


class _SeededNames(object):
    """Stands in for tempfile's random name sequence (mkdtemp / mkstemp names)."""
    characters = "abcdefghijklmnopqrstuvwxyz0123456789_"

    def __init__(self, rng):
        self.rng = rng

    def __iter__(self):
        return self

    def __next__(self):
        return "".join(self.rng.choice(self.characters) for _ in range(8))


def make_uuid4(rng):
    def uuid4():
        return _uuid.UUID(int=rng.getrandbits(128), version=4)
    return uuid4


def sandbox_root():
    base = "/dev/shm" if os.path.isdir("/dev/shm") and os.access("/dev/shm", os.W_OK) \
        else tempfile.gettempdir()
    return base


_SANDBOX_COUNTER = [0]


def make_sandbox():
    _SANDBOX_COUNTER[0] += 1
    path = os.path.join(sandbox_root(), "odml-verif-%d-%d" % (os.getpid(), _SANDBOX_COUNTER[0]))
    if os.path.exists(path):
        shutil.rmtree(path, ignore_errors=True)
    os.makedirs(path)
    return path


def sweep_sandboxes(pids):
    root = sandbox_root()
    try:
        names = os.listdir(root)
    except OSError:
        return
    for name in names:
        if name.startswith("odml-verif-"):
            parts = name.split("-")
            try:
                if int(parts[2]) in pids:
                    shutil.rmtree(os.path.join(root, name), ignore_errors=True)
            except (IndexError, ValueError):
                pass


class Capture(object):
    """stdout / stderr / warnings of one run (the library 'logs' through print)."""

    def __init__(self):
        self.out = io.StringIO()
        self.err = io.StringIO()
        self.warnings = []

    def take(self):
        """Return and reset what was captured since the last take()."""
        out, err = self.out.getvalue(), self.err.getvalue()
        self.out.seek(0)
        self.out.truncate()
        self.err.seek(0)
        self.err.truncate()
        wrn = [(w.category.__name__, str(w.message)) for w in self.warnings]
        del self.warnings[:]
        return out, err, wrn


@contextlib.contextmanager
def installed(streams, clock=None, sandbox=None, capture=None, sync_threads=True):
    """Install the seams shared by all engines for the duration of one run.

    uuid4 <- stream 'uuid'; wall clock <- SimClock; tempdir/cache dir <- sandbox;
    stdout/stderr/warnings captured; loader threads run synchronously inside
    start() unless the THREADS engine installs its own scheduler shim.
    """
    import odml
    import odml.dtypes
    import odml.terminology
    import odml.templates

    clock = clock or SimClock()
    capture = capture or Capture()
    own_sandbox = sandbox is None
    if own_sandbox:
        sandbox = make_sandbox()

    saved = []

    def patch(obj, name, value):
        saved.append((obj, name, getattr(obj, name)))
        setattr(obj, name, value)

    shim = _DatetimeModuleShim(clock)
    patch(_uuid, "uuid4", make_uuid4(streams.get("uuid")))
    # the process-wide generator of the random module is a source the package could draw from as
    # well (ids, names): seeded per run, its state given back afterwards
    import random as _random
    random_state = _random.getstate()
    _random.seed(streams.get("random-module").getrandbits(64))
    patch(odml.dtypes, "dt", shim)
    patch(odml.terminology, "datetime", shim)
    patch(odml.templates, "dati", shim.datetime)
    tmp = os.path.join(sandbox, "tmp")
    os.makedirs(tmp, exist_ok=True)
    patch(tempfile, "tempdir", tmp)
    patch(tempfile, "_name_sequence", _SeededNames(streams.get("tmpnames")))

    # Fresh process-global loader state for every run.
    fresh_loader_state()
    fresh_validation_state()
    fresh_class_state()
    fresh_module_state()
    fresh_function_defaults()
    # Fuel: one op may start at most FUEL merges.  Links that lead into their own copies make
    # finalize descend without end; a count (not a clock) ends such a run the same way on replay.
    import odml.section as _section
    fuel = [None]
    real_merge = _section.BaseSection.merge

    def counted_merge(self, *args, **kwargs):
        if fuel[0] is not None:
            fuel[0] -= 1
            if fuel[0] < 0:
                raise Runaway("more than %d merges in one operation" % FUEL)
        return real_merge(self, *args, **kwargs)
    counted_merge.__wrapped__ = real_merge
    patch(_section.BaseSection, "merge", counted_merge)
    if sync_threads:
        from .threads import SyncThreading
        sync = SyncThreading()
        patch(odml.terminology, "threading", sync)
        patch(odml.templates, "threading", sync)

    old_out, old_err = sys.stdout, sys.stderr
    sys.stdout, sys.stderr = capture.out, capture.err
    cm = warnings.catch_warnings(record=True)
    wlist = cm.__enter__()
    # the process-wide "already shown once" table must not carry over from the runs this worker
    # executed before (a library that switches to the "once" filter would otherwise behave
    # differently in the first run of a worker than in all later ones)
    getattr(warnings, "onceregistry", {}).clear()
    warnings.simplefilter("always")
    capture.warnings = wlist
    try:
        env = Env(streams, clock, sandbox, capture)
        env.fuel = fuel
        yield env
    finally:
        cm.__exit__(None, None, None)
        _random.setstate(random_state)
        sys.stdout, sys.stderr = old_out, old_err
        for obj, name, value in reversed(saved):
            setattr(obj, name, value)
        fresh_loader_state()
        if own_sandbox:
            shutil.rmtree(sandbox, ignore_errors=True)


def fresh_loader_state():
    import odml.terminology as term
    import odml.templates as templ
    term.terminologies.clear()
    term.Terminologies.loading.clear()
    term.terminologies.reload_cache = False
    templ.TemplateHandler.loading.clear()


_VALIDATION_IMPORT_STATE = {}


def _copy_container(val):
    if isinstance(val, dict):
        return {k: _copy_container(v) for k, v in val.items()}
    if isinstance(val, (set, list)):
        return type(val)(val)
    return val


def _restore_container(live, saved):
    """Bring a class-level container back to its import-time content, in place (identity kept)."""
    if isinstance(saved, dict):
        for k in list(live):
            if k not in saved:
                del live[k]
        for k, v in saved.items():
            if k in live and isinstance(v, (dict, set, list)) and type(live[k]) is type(v):
                _restore_container(live[k], v)
            else:
                live[k] = _copy_container(v)
    elif isinstance(saved, set):
        live.clear()
        live.update(saved)
    elif isinstance(saved, list):
        live[:] = saved


_CLASS_IMPORT_STATE = {}


def fresh_class_state():
    """Class-level mutable containers of every class the odml package defines (not only the
    validation registry) start each run with the content they had when the harness first saw
    them: whatever a change keeps on a class instead of an instance would otherwise make a
    run depend on the runs its worker executed before.  Leakage *within* a run is judged."""
    import inspect
    import sys as _sys
    if not _CLASS_IMPORT_STATE:
        for modname, mod in list(_sys.modules.items()):
            if mod is None or not (modname == "odml" or modname.startswith("odml.")):
                continue
            for cls in list(vars(mod).values()):
                if inspect.isclass(cls) and str(getattr(cls, "__module__", "")).startswith("odml"):
                    for name, val in list(vars(cls).items()):
                        if isinstance(val, (dict, set, list)) and not name.startswith("__"):
                            _CLASS_IMPORT_STATE.setdefault((cls, name), _copy_container(val))
    for (cls, name), saved in _CLASS_IMPORT_STATE.items():
        live = vars(cls).get(name)
        if type(live) is type(saved):
            _restore_container(live, saved)
        else:
            try:
                setattr(cls, name, _copy_container(saved))
            except (AttributeError, TypeError):
                pass
    # attributes a change added to a class after the harness first looked: drop what it collected
    for modname, mod in list(_sys.modules.items()):
        if mod is None or not (modname == "odml" or modname.startswith("odml.")):
            continue
        for cls in list(vars(mod).values()):
            if inspect.isclass(cls) and str(getattr(cls, "__module__", "")).startswith("odml"):
                for name, val in list(vars(cls).items()):
                    if isinstance(val, (dict, set, list)) and not name.startswith("__") and \
                            (cls, name) not in _CLASS_IMPORT_STATE:
                        _CLASS_IMPORT_STATE[(cls, name)] = _copy_container(val)


_MODULE_IMPORT_STATE = {}


def fresh_module_state():
    """Module-level mutable containers of the package (a cache keyed by something, a registry) are
    process state like the class-level ones: restored to what they held when the harness first
    saw them.  The loader tables have their own reset (fresh_loader_state)."""
    import sys as _sys
    import types as _types
    for modname, mod in list(_sys.modules.items()):
        if mod is None or not (modname == "odml" or modname.startswith("odml.")):
            continue
        for name, val in list(vars(mod).items()):
            if not name.startswith("__") and type(val).__name__ == "_lru_cache_wrapper":
                try:
                    if str(getattr(val, "__module__", "")).startswith("odml"):
                        val.cache_clear()   # a memoised function of the package is process state too
                except Exception:
                    pass
                continue
            if not name.startswith("__") and isinstance(val, _types.FunctionType):
                # attributes hung on a function of the package (a tag, a counter) are process
                # state as well
                try:
                    if str(val.__module__).startswith("odml"):
                        fkey = (modname, name, "__dict__")
                        if fkey not in _MODULE_IMPORT_STATE:
                            _MODULE_IMPORT_STATE[fkey] = dict(val.__dict__)
                        elif val.__dict__ != _MODULE_IMPORT_STATE[fkey]:
                            val.__dict__.clear()
                            val.__dict__.update(_MODULE_IMPORT_STATE[fkey])
                except Exception:
                    pass
                continue
            if name.startswith("__") or not isinstance(val, (dict, set, list)):
                continue
            if type(val) not in (dict, set, list):
                continue        # subclasses (the terminology table) are instances with their own reset
            if any(val is vars(m) for m in list(_sys.modules.values()) if m is not None):
                continue        # a module's own namespace (odml.dtypes.self)
            key = (modname, name)
            if key not in _MODULE_IMPORT_STATE:
                _MODULE_IMPORT_STATE[key] = type(val)(val)          # one level: the entries
            else:
                saved = _MODULE_IMPORT_STATE[key]
                try:
                    same = len(val) == len(saved) and (
                        all(k in saved and val[k] is saved[k] for k in val) if isinstance(val, dict)
                        else list(val) == list(saved) if isinstance(val, list) else val == saved)
                except Exception:
                    same = True
                if not same:
                    if isinstance(val, dict):
                        val.clear()
                        val.update(saved)
                    elif isinstance(val, list):
                        val[:] = saved
                    else:
                        val.clear()
                        val.update(saved)


_FUNC_DEFAULTS = {}


def fresh_function_defaults():
    """Mutable default arguments of the package's functions (a shared `arg={}`) are process state
    as well: they start every run with the content they had when the harness first saw them."""
    import inspect
    import sys as _sys
    first = not _FUNC_DEFAULTS
    for modname, mod in list(_sys.modules.items()):
        if mod is None or not (modname == "odml" or modname.startswith("odml.")):
            continue
        funcs = []
        for obj in list(vars(mod).values()):
            if inspect.isfunction(obj) and str(obj.__module__).startswith("odml"):
                funcs.append(obj)
            elif inspect.isclass(obj) and str(getattr(obj, "__module__", "")).startswith("odml"):
                for member in list(vars(obj).values()):
                    member = getattr(member, "__func__", member)
                    if inspect.isfunction(member):
                        funcs.append(member)
        for fn in funcs:
            for k, val in enumerate(fn.__defaults__ or ()):
                if isinstance(val, (dict, set, list)):
                    key = (fn, k)
                    if key not in _FUNC_DEFAULTS:
                        _FUNC_DEFAULTS[key] = _copy_container(val) if first else type(val)()
                    _restore_container(val, _FUNC_DEFAULTS[key])


def fresh_validation_state():
    """Every class-level container of odml.validation.Validation (the default rule registry and
    whatever else a change adds next to it) starts each run with its import-time content: a run
    must not depend on the runs the same worker process executed before it.  Pollution *within*
    a run is what the C19 monitors look for."""
    from odml.validation import Validation
    if not _VALIDATION_IMPORT_STATE:
        for name, val in vars(Validation).items():
            if isinstance(val, (dict, set, list)):
                _VALIDATION_IMPORT_STATE[name] = _copy_container(val)
    for name, saved in _VALIDATION_IMPORT_STATE.items():
        live = vars(Validation).get(name)
        if type(live) is type(saved):
            _restore_container(live, saved)
        else:
            setattr(Validation, name, _copy_container(saved))


FUEL = 1000


class Runaway(BaseException):
    """An operation of the library keeps merging (see installed): the run is abandoned."""


class Env(object):
    def __init__(self, streams, clock, sandbox, capture):
        self.streams = streams
        self.clock = clock
        self.sandbox = sandbox
        self.capture = capture


def validation_fingerprint(handlers=None):
    """Default validation registry: class key -> sorted handler names."""
    from odml.validation import Validation
    handlers = Validation._handlers if handlers is None else handlers
    out = {}
    for key in sorted(handlers):
        out[key] = sorted("%s.%s" % (h.__module__, getattr(h, "__qualname__", h.__name__))
                          for h in handlers[key])
    return out


def import_time_fingerprint():
    """The default registry as it was when odml.validation had just been imported."""
    if not _VALIDATION_IMPORT_STATE:
        fresh_validation_state()
    return validation_fingerprint(_VALIDATION_IMPORT_STATE.get("_handlers", {}))
