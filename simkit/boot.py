"""Import odml from the tree under test ($VERIF_REPO, default /repo)."""
import os
import sys

REPO = os.path.abspath(os.environ.get("VERIF_REPO", "/repo"))
os.environ.setdefault("TZ", "UTC")

if sys.path[0] != REPO:
    sys.path.insert(0, REPO)

# Whatever the package draws while it is imported (a default argument evaluated once, a module
# level id) is process state too: the sources of randomness it could use are seeded for the
# duration of the import, so that every interpreter imports the same package state.
import random as _random  # noqa: E402
import uuid as _uuid  # noqa: E402

_import_rng = _random.Random(0x0D31)
_real_uuid4, _real_uuid1 = _uuid.uuid4, _uuid.uuid1
_random_state = _random.getstate()
_uuid.uuid4 = lambda: _uuid.UUID(int=_import_rng.getrandbits(128), version=4)
_uuid.uuid1 = lambda *a, **k: _uuid.UUID(int=_import_rng.getrandbits(128), version=1)
_random.seed(0x0D31)
try:
    import odml  # noqa: E402
    import odml.tools.converters  # noqa: E402,F401
    import odml.scripts.odml_convert  # noqa: E402,F401
    import odml.scripts.odml_to_rdf  # noqa: E402,F401
    import odml.templates  # noqa: E402,F401
    import odml.validation  # noqa: E402,F401
finally:
    _uuid.uuid4, _uuid.uuid1 = _real_uuid4, _real_uuid1
    _random.setstate(_random_state)

_here = os.path.abspath(odml.__file__)
if not _here.startswith(REPO + os.sep):
    raise ImportError("odml imported from %s, expected below %s" % (_here, REPO))


def tree_id():
    """git describe / dirty hash of the tree under test (informational)."""
    import subprocess
    try:
        head = subprocess.run(["git", "-C", REPO, "rev-parse", "--short", "HEAD"],
                              capture_output=True, text=True, timeout=10).stdout.strip()
        diff = subprocess.run(["git", "-C", REPO, "diff", "HEAD", "--", "odml"],
                              capture_output=True, text=True, timeout=10).stdout
        if diff:
            import hashlib
            head += "+dirty-" + hashlib.sha256(diff.encode()).hexdigest()[:8]
        return head or "unknown"
    except Exception:
        return "unknown"
