"""Import odml from the tree under test ($VERIF_REPO, default /repo)."""
import os
import sys

REPO = os.path.abspath(os.environ.get("VERIF_REPO", "/repo"))
os.environ.setdefault("TZ", "UTC")

if sys.path[0] != REPO:
    sys.path.insert(0, REPO)

import odml  # noqa: E402

_here = os.path.abspath(odml.__file__)
if not _here.startswith(REPO + os.sep):
    raise ImportError("odml imported from %s, expected below %s" % (_here, REPO))


def tree_id():
    """git describe / dirty hash of the tree under test (informational)."""
    import subprocess
    try:
        head = subprocess.run(["git", "-C", REPO, "rev-parse", "--short", "HEAD"],
                              capture_output=True, text=True, timeout=10).stdout.strip()
        diff = subprocess.run(["git", "-C", REPO, "diff", "HEAD", "--", "odml"],
                              capture_output=True, text=True, timeout=10).stdout
        if diff:
            import hashlib
            head += "+dirty-" + hashlib.sha256(diff.encode()).hexdigest()[:8]
        return head or "unknown"
    except Exception:
        return "unknown"
