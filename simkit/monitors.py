"""Monitors: invariants and before/after relations evaluated after every op.

Each monitor belongs to exactly one property; a check enables only its own.
A monitor returns None or (monitor_id, message).
"""
import datetime as _dt
import uuid as _uuid

from . import boot  # noqa: F401
from odml import dtypes as _dtypes
from .universe import kind_of, diff_snapshots, MAX_DEPTH


class Ctx(object):
    """What a monitor sees of one step."""
    __slots__ = ("op", "args", "labels", "outcome", "pre", "post", "U", "env", "mem", "step")

    def __init__(self, **kw):
        for k, v in kw.items():
            setattr(self, k, v)

    @property
    def raised(self):
        return self.outcome[0] == "exc"

    @property
    def name(self):
        return self.op["op"]


# ------------------------------------------------------------------------------- C03

def _child_lists(U):
    """id(child) -> list of containers (registry order) listing it, with multiplicity."""
    occ = {}
    for cont in U.objs:
        knd = kind_of(cont)
        if knd in ("doc", "sec"):
            for ch in list(cont.sections):
                occ.setdefault(id(ch), []).append(cont)
        if knd == "sec":
            for ch in list(cont.properties):
                occ.setdefault(id(ch), []).append(cont)
    return occ


def tree_structure(U, max_depth=MAX_DEPTH):
    """Clauses 1-4 of C03 on the live universe.  Bounded: cannot hang on a broken tree."""
    occ = _child_lists(U)
    for i, obj in enumerate(U.objs):
        knd = kind_of(obj)
        if knd not in ("sec", "prop"):
            continue
        par = obj.parent
        where = occ.get(id(obj), [])
        if par is None:
            if where:
                return ("tree.child-parent",
                        "obj#%d reports no parent but is listed in obj#%s" %
                        (i, [U.index(c) for c in where]))
            continue
        pk = kind_of(par)
        if pk not in ("doc", "sec") or (knd == "prop" and pk != "sec"):
            return ("tree.single-membership", "obj#%d reports a parent of kind %s" % (i, pk))
        mine = [c for c in where if c is par]
        if len(mine) != 1:
            return ("tree.single-membership",
                    "obj#%d reports parent obj#%s but occurs %d times in its child list" %
                    (i, U.index(par), len(mine)))
        if len(where) != 1:
            return ("tree.single-membership",
                    "obj#%d (parent obj#%s) is also listed in obj#%s" %
                    (i, U.index(par), [U.index(c) for c in where if c is not par]))
    # acyclic
    for i, obj in enumerate(U.objs):
        if kind_of(obj) != "sec":
            continue
        seen = [obj]
        cur = obj
        for _ in range(max_depth):
            cur = cur.parent if kind_of(cur) != "doc" else None
            if cur is None:
                break
            if any(cur is s for s in seen):
                return ("tree.acyclic", "obj#%d is its own ancestor" % i)
            seen.append(cur)
        else:
            return ("tree.acyclic", "parent chain of obj#%d exceeds depth %d" % (i, max_depth))
    return None


def tree_document(U):
    for i, obj in enumerate(U.objs):
        top = U.top(obj)
        want = top if kind_of(top) == "doc" else None
        got = obj.document
        if got is not want:
            return ("tree.document", "obj#%d .document is obj#%s, top of its chain is obj#%s (%s)" %
                    (i, U.index(got) if got is not None else None, U.index(top), kind_of(top)))
    return None


def tree_terminates(U):
    """C03 promises termination only; what the traversals return is C14's statement."""
    for obj in U.objs:
        knd = kind_of(obj)
        if knd in ("sec", "prop"):
            obj.get_path()
        if knd in ("doc", "sec"):
            n = 0
            for _ in obj.itersections():
                n += 1
                if n > 5000:
                    return ("tree.terminates", "itersections yields more than 5000 objects")
            n = 0
            for _ in obj.iterproperties():
                n += 1
                if n > 5000:
                    return ("tree.terminates", "iterproperties yields more than 5000 objects")
    return None


def mon_tree(ctx):
    v = tree_structure(ctx.U)
    if v:
        return v
    v = tree_document(ctx.U)
    if v:
        return v
    return tree_terminates(ctx.U)


# ------------------------------------------------------------------------------- C04

def names_ids(U, str_names=True):
    """str_names=False: a reader may hand back a name YAML re-typed (name: 1); only empty
    names are judged then."""
    for i, obj in enumerate(U.objs):
        knd = kind_of(obj)
        if knd == "other":
            continue
        oid = obj.id
        try:
            ok = isinstance(oid, str) and str(_uuid.UUID(oid)) == oid
        except (ValueError, AttributeError, TypeError):
            ok = False
        if not ok:
            return ("ids.canonical", "obj#%d has id %r" % (i, oid))
        if knd in ("sec", "prop"):
            if (str_names and not isinstance(obj.name, str)) or obj.name == "" or obj.name is None:
                return ("names.nonempty", "obj#%d has name %r" % (i, obj.name))
        if knd in ("doc", "sec"):
            seen = []       # (a reader may hand back a name that is no text and cannot be hashed)
            for ch in list(obj.sections):
                if any(nm == ch.name and other is not ch for nm, other in seen):
                    return ("names.unique-sections",
                            "obj#%d has two child Sections named %r" % (i, ch.name))
                seen.append((ch.name, ch))
        if knd == "sec":
            seen = []
            for ch in list(obj.properties):
                if any(nm == ch.name and other is not ch for nm, other in seen):
                    return ("names.unique-properties",
                            "obj#%d has two Properties named %r" % (i, ch.name))
                seen.append((ch.name, ch))
    return None


def names_lookup(U):
    for i, obj in enumerate(U.objs):
        knd = kind_of(obj)
        if knd in ("doc", "sec"):
            for ch in list(obj.sections):
                if obj.sections[ch.name] is not ch:
                    return ("names.lookup", "obj#%d.sections[%r] is not the holder" % (i, ch.name))
        if knd == "sec":
            for ch in list(obj.properties):
                if obj.properties[ch.name] is not ch:
                    return ("names.lookup", "obj#%d.properties[%r] is not the holder" % (i, ch.name))
    return None


def mon_names(ctx):
    v = names_ids(ctx.U)
    if v:
        return v
    v = names_lookup(ctx.U)
    if v:
        return v
    op, a = ctx.op, ctx.args
    if ctx.name == "rename" and not a["name"] and not ctx.raised:
        x = a["x"]
        if kind_of(x) in ("sec", "prop") and x.name != x.id:
            return ("names.fallback", "rename to %r left name %r (id %s)" % (a["name"], x.name, x.id))
    if ctx.name in ("new_doc", "new_sec", "new_prop", "create_section", "create_property") \
            and "id_malformed" in ctx.labels:
        if ctx.raised and ctx.outcome[1] == "ValueError" and "uuid" in ctx.outcome[2].lower():
            return ("ids.ctor-replace", "constructor refused malformed id %r" % (a.get("oid"),))
        if not ctx.raised:
            obj = ctx.U.objs[ctx.outcome[1]["new"]]
            if obj.id == a.get("oid"):
                return ("ids.ctor-replace", "malformed id %r was kept" % (a.get("oid"),))
            # "replaced by a fresh one": not by one computed from the refused text - a second
            # object given the same text must get another id, and no object may hold it already
            import odml
            knd = kind_of(obj)
            try:
                twin = odml.Document(oid=a.get("oid")) if knd == "doc" else \
                    (odml.Section if knd == "sec" else odml.Property)(name="probe", oid=a.get("oid"))
            except Exception:
                twin = None
            if twin is not None and twin.id == obj.id:
                return ("ids.ctor-replace", "malformed id %r is replaced by the same id %s every "
                        "time: not a fresh one" % (a.get("oid"), obj.id))
            for j, other in enumerate(ctx.U.objs):
                if other is not obj and kind_of(other) != "other" and other.id == obj.id:
                    return ("ids.ctor-replace", "the id that replaces malformed %r is the id of "
                            "obj#%d" % (a.get("oid"), j))
    if ctx.name == "new_id" and "id_malformed" in ctx.labels:
        if not ctx.raised:
            return ("ids.new_id-reject", "new_id(%r) was accepted" % (a.get("oid"),))
        i = ctx.U.index(a["x"])
        if ctx.pre["objs"][i]["id"] != ctx.post["objs"][i]["id"]:
            return ("ids.new_id-reject", "failed new_id changed the id")
    return None


# ------------------------------------------------------------------------------- C05

_PYTYPE = {
    "int": int, "float": float, "boolean": bool, "string": str, "text": str, "url": str,
    "person": str, "date": _dt.date, "time": _dt.time, "datetime": _dt.datetime,
}


_TUPLE_NAME = __import__("re").compile(r"^[1-9][0-9]*-tuple$")


def _own_valid_type(dtype):
    """The valid odML dtype names, spelled out here (not asked of the library): the canonical
    names, the DType members, n-tuple."""
    name = getattr(dtype, "value", dtype)
    if not isinstance(name, str):
        return False
    return name.lower() in _PYTYPE or name.lower() in ("str", "bool") or bool(_TUPLE_NAME.match(name))


def _value_ok(val, dtype):
    if dtype is None:
        return True, ""
    if dtype.endswith("-tuple"):
        n = int(dtype[:-6])
        if not (isinstance(val, list) and len(val) == n and all(type(e) is str for e in val)):
            return False, "is not a list of %d strings" % n
        return True, ""
    want = _PYTYPE.get(dtype.lower() if isinstance(dtype, str) else dtype)
    if want is None:
        return False, "dtype %r has no Python type" % (dtype,)
    if type(val) is not want:
        return False, "has Python type %s" % type(val).__name__
    if isinstance(val, (_dt.datetime, _dt.time)) and val.microsecond:
        return False, "carries a sub-second part"
    return True, ""


def values_typed(U):
    for i, obj in enumerate(U.objs):
        if kind_of(obj) != "prop":
            continue
        dtype = obj.dtype
        if dtype is not None and not _own_valid_type(dtype):
            return ("values.dtype-valid", "obj#%d has dtype %r" % (i, dtype))
        vals = obj.values
        for v in vals:
            ok, why = _value_ok(v, str(dtype) if dtype is not None else None)
            if not ok:
                return ("values.typed", "obj#%d (dtype %s): value %r %s" % (i, dtype, v, why))
        if len(obj) != len(vals):
            return ("values.typed", "obj#%d: len() %d != len(values) %d" % (i, len(obj), len(vals)))
    return None


def values_normal_form(U):
    for i, obj in enumerate(U.objs):
        if kind_of(obj) != "prop":
            continue
        dtype = obj.dtype
        if dtype is None:
            continue
        for k, v in enumerate(obj.values):
            try:
                text = _dtypes.set(v, dtype)
                back = _dtypes.get(text, dtype)
            except Exception as exc:
                return ("values.normal-form", "obj#%d value %r: text round trip raised %s: %s" %
                        (i, v, type(exc).__name__, exc))
            if back != v or type(back) is not type(v):
                return ("values.normal-form", "obj#%d value %r -> text %r -> %r" % (i, v, text, back))
            if not str(dtype).endswith("-tuple"):
                try:
                    back = _dtypes.get(str(v), dtype)
                except Exception as exc:
                    return ("values.normal-form", "obj#%d value %r: str() round trip raised %s" %
                            (i, v, type(exc).__name__))
                if back != v or type(back) is not type(v):
                    return ("values.normal-form", "obj#%d value %r -> str %r -> %r" %
                            (i, v, str(v), back))
            if obj.value_str(k) != text:
                return ("values.normal-form", "obj#%d value_str(%d) %r != %r" %
                        (i, k, obj.value_str(k), text))
        if str(dtype).endswith("-tuple") and len(obj.values):
            # stored n-tuple values are lists: what this Property holds is valid input for every
            # value-editing entry point of another Property of the same dtype (a throw-away one)
            import odml
            vals = obj.values
            for how in ("extend", "extend(Property)", "insert"):
                try:
                    probe = odml.Property(name="probe", dtype=dtype, values=vals[:1])
                    if how == "extend":
                        probe.extend(vals)
                    elif how == "extend(Property)":
                        probe._unit = obj.unit      # (same unit: extend compares them)
                        if probe.unit != obj.unit:
                            continue
                        probe.extend(obj)
                    else:
                        probe.insert(0, [vals[-1]])      # one value, itself a list
                    got = probe.values
                except Exception as exc:
                    return ("values.normal-form", "obj#%d (dtype %s): %s refuses the stored values %r "
                            "of the Property: %s: %s" % (i, dtype, how, vals, type(exc).__name__, exc))
                want = ([vals[-1]] + vals[:1]) if how == "insert" else vals[:1] + vals
                if got != want:
                    return ("values.normal-form", "obj#%d (dtype %s): %s of the stored values %r "
                            "gives %r" % (i, dtype, how, vals, got))
    return None


VALUE_OPS = ("set_values", "set_dtype", "v_append", "v_extend", "v_extend_prop", "v_insert",
             "v_setitem", "v_remove", "v_remove_at", "reassign_values")
# exceptions that are not conversion failures and are accepted as refusals
_OK_NONCONV = {
    "v_setitem": ("IndexError",), "v_insert": ("IndexError",), "set_dtype": ("AttributeError",),
}


def mon_values(ctx):
    v = values_typed(ctx.U)
    if v:
        return v
    v = values_normal_form(ctx.U)
    if v:
        return v
    name = ctx.name
    if name in VALUE_OPS or name in ("new_prop", "create_property", "merge", "clone"):
        x = ctx.args.get("x")
        if name in VALUE_OPS and kind_of(x) == "prop":
            i = ctx.U.index(x)
            pre, post = ctx.pre["objs"][i], ctx.post["objs"][i]
            if ctx.raised and name == "reassign_values":
                return ("values.normal-form", "p.values = p.values raised %s: %s" %
                        (ctx.outcome[1], ctx.outcome[2]))
            if ctx.raised and name == "v_extend_prop" and kind_of(ctx.args.get("y")) == "prop" and \
                    "strict_mismatch" not in ctx.labels:
                # stored values are in normal form: what one Property holds is valid input for
                # another Property of the same dtype and unit
                j = ctx.U.index(ctx.args["y"])
                src = ctx.pre["objs"][j]
                if src["dtype"] == pre["dtype"] and src["dtype"] is not None and \
                        src.get("unit") == pre.get("unit") and src["values"] and pre["values"]:
                    return ("values.accepts-stored-form", "extend(Property) refused the stored values %r "
                            "of a Property of the same dtype %r: %s: %s" %
                            (src["values"], src["dtype"], ctx.outcome[1], ctx.outcome[2]))
            if ctx.raised:
                exc = ctx.outcome[1]
                as_error = exc.endswith("Warning") and getattr(ctx.env, "wfilter", None) == "error"
                if exc != "ValueError" and exc not in _OK_NONCONV.get(name, ()) and not as_error:
                    if exc in ("TypeError", "AttributeError") and \
                            ("wrong_type" in ctx.labels):
                        pass
                    else:
                        return ("values.refusal", "%s raised %s: %s" % (name, exc, ctx.outcome[2]))
                if pre["values"] != post["values"] or pre["dtype"] != post["dtype"]:
                    return ("values.refusal", "refused %s changed values/dtype: %s" %
                            (name, "; ".join(diff_snapshots(ctx.pre, ctx.post, only=[i]))))
            elif name in ("v_append", "v_extend", "v_extend_prop", "v_insert", "v_setitem", "set_values",
                          "v_remove", "v_remove_at") and pre["dtype"] is not None and \
                    pre["dtype"] != post["dtype"]:
                # only the dtype setter changes a dtype that is set: input that does not fit it is
                # refused, whatever the Property held before
                return ("values.refusal", "%s changed the dtype %r -> %r" %
                        (name, pre["dtype"], post["dtype"]))
            elif name == "set_dtype":
                # a string holding the bracketed text form of several n-tuples is legitimately
                # expanded when the dtype becomes an n-tuple type: only a loss is judged there
                grew_tuple = str(post["dtype"][1] if post["dtype"] else "").endswith("-tuple") and \
                    len(post["values"]) > len(pre["values"])
                if len(pre["values"]) != len(post["values"]) and not grew_tuple:
                    return ("values.dtype-change", "dtype change altered the number of values "
                            "%d -> %d" % (len(pre["values"]), len(post["values"])))
            elif name == "reassign_values":
                if pre != post:
                    return ("values.normal-form", "p.values = p.values changed the Property: %s" %
                            "; ".join(diff_snapshots(ctx.pre, ctx.post, only=[i])))
    return None


# ------------------------------------------------------------------------------- C06

def mon_atomic(ctx):
    if not ctx.raised:
        return None
    pre, post = ctx.pre, ctx.post
    n = len(pre["objs"])
    if pre["objs"] != post["objs"][:n] or pre["aliases"] != post["aliases"][:len(pre["aliases"])]:
        return ("atomic.unchanged", "%s raised %s but the state changed: %s" % (
            ctx.name, ctx.outcome[1], "; ".join(diff_snapshots(pre, post))))
    # a new (half constructed) object attached to a pre-existing object
    for j in range(n, len(post["objs"])):
        rec = post["objs"][j]
        par = rec.get("parent")
        if par is not None and 0 <= par < n:
            return ("atomic.unchanged", "%s raised %s but new obj#%d is attached to obj#%d" %
                    (ctx.name, ctx.outcome[1], j, par))
    return None


# ------------------------------------------------------------------------------- C09

def card_normal_form(card):
    """card as canon(): None, or ['tuple', [a, b]] with a, b None / non-negative int."""
    if card is None:
        return True
    if not (isinstance(card, list) and card[0] == "tuple" and len(card[1]) == 2):
        return False
    lo, hi = card[1]
    vals = []
    for e in (lo, hi):
        if e is None:
            vals.append(None)
        elif e[0] == "int" and e[1] >= 0:
            vals.append(e[1])
        else:
            return False
    if not vals[0] and not vals[1]:
        return False      # both empty: must be stored as unset
    if vals[0] is not None and vals[1] is not None and vals[0] > vals[1]:
        return False
    return True


def clearly_valid_card(val):
    """(min, max) pairs the statement allows without room for interpretation: members None or
    positive int, not both None, min <= max.  Returns the pair or None."""
    if not isinstance(val, (tuple, list)) or len(val) != 2:
        return None
    for e in val:
        if e is not None and (isinstance(e, bool) or not isinstance(e, int) or e < 1):
            return None
    lo, hi = val
    if lo is None and hi is None:
        return None
    if lo is not None and hi is not None and lo > hi:
        return None
    return (lo, hi)


def card_pair(card):
    if card is None:
        return None, None
    lo, hi = card[1]
    return (lo[1] if lo else None), (hi[1] if hi else None)


_CARD_FIELDS = {"sec": ("sec_card", "prop_card"), "prop": ("val_card",)}
_CARD_ISSUE = {"sec_card": "section_sections_cardinality", "prop_card": "section_properties_cardinality",
               "val_card": "property_values_cardinality"}
_CARD_COUNT = {"sec_card": "secs", "prop_card": "props", "val_card": "values"}


def card_form(snap):
    for i, rec in enumerate(snap["objs"]):
        for field in _CARD_FIELDS.get(rec.get("k"), ()):
            if not card_normal_form(rec[field]):
                return ("card.form", "obj#%d.%s is %r" % (i, field, rec[field]))
    return None


def card_reports(U, snap):
    """An issue 500/501/502 is reported for an object iff its count is outside [min, max]."""
    from odml.validation import Validation
    reported = {}
    for i, obj in enumerate(U.objs):
        if kind_of(obj) not in ("sec", "prop"):
            continue
        # one validation per object
        for err in Validation(obj).errors:
            if err.obj is not obj:
                continue
            vid = getattr(err.validation_id, "name", str(err.validation_id))
            if vid in _CARD_ISSUE.values():
                reported.setdefault((i, vid), []).append(err.rank)
    for i, rec in enumerate(snap["objs"]):
        for field in _CARD_FIELDS.get(rec.get("k"), ()):
            lo, hi = card_pair(rec[field])
            count = len(rec[_CARD_COUNT[field]])
            outside = (lo is not None and count < lo) or (hi is not None and count > hi)
            ranks = reported.pop((i, _CARD_ISSUE[field]), [])
            if outside and not ranks:
                return ("card.report-exact", "obj#%d %s=%r count=%d: no %s issue reported" %
                        (i, field, (lo, hi), count, _CARD_ISSUE[field]))
            if not outside and ranks:
                return ("card.report-exact", "obj#%d %s=%r count=%d: %s reported although "
                        "the count is inside" % (i, field, (lo, hi), count, _CARD_ISSUE[field]))
            if len(ranks) > 1:
                return ("card.report-exact", "obj#%d %s: issue reported %d times" %
                        (i, field, len(ranks)))
            if ranks and ranks[0] != "warning":
                return ("card.report-exact", "obj#%d %s: issue has rank %r" % (i, field, ranks[0]))
    for (i, vid) in reported:
        if i is not None:
            return ("card.report-exact", "obj#%s: unexpected %s issue" % (i, vid))
    # the same rule when a whole tree is validated in one go (several violating objects, deep-equal
    # twins included, meet in one issue list): every Section and Property below the validated
    # object, the Properties of a validated Section included
    for r, root in enumerate(U.objs):
        if kind_of(root) not in ("doc", "sec") or (kind_of(root) == "sec" and root.parent is not None):
            continue
        covered = []
        for obj in U.subtree(root):
            knd = kind_of(obj)
            if knd in ("sec", "prop"):
                covered.append(obj)
        if len(covered) < 2:
            continue
        errs = [e for e in Validation(root).errors
                if getattr(e.validation_id, "name", str(e.validation_id)) in _CARD_ISSUE.values()]
        if kind_of(root) == "doc":
            # Document.validate() is the same validation through another door: the same issues,
            # bound to the objects of this document
            via = [e for e in root.validate().errors
                   if getattr(e.validation_id, "name", str(e.validation_id)) in _CARD_ISSUE.values()]
            key = lambda e: (U.index(e.obj) if U.index(e.obj) is not None else -1,
                             getattr(e.validation_id, "name", ""))
            if sorted(map(key, via)) != sorted(map(key, errs)):
                return ("card.report-exact", "obj#%d.validate() reports the cardinality issues %r, "
                        "Validation(obj#%d) reports %r" % (r, sorted(map(key, via)), r,
                                                           sorted(map(key, errs))))
        # a Validation the caller keeps, runs again after every edit and asks per object
        # (validation[obj]) must say the same as a fresh one
        kept = U.kept_card_vals.get(r)
        if kept is None:
            kept = U.kept_card_vals[r] = Validation(root)
        else:
            kept.run_validation()
        for obj in covered:
            mine = sorted(getattr(e.validation_id, "name", "") for e in errs if e.obj is obj)
            theirs = sorted(getattr(e.validation_id, "name", "") for e in kept[obj]
                            if getattr(e.validation_id, "name", "") in _CARD_ISSUE.values())
            if mine != theirs:
                return ("card.report-exact", "a kept Validation of obj#%d, run again, reports %r for "
                        "obj#%d through validation[obj]; a fresh one reports %r" %
                        (r, theirs, U.index(obj), mine))
        for obj in covered:
            i = U.index(obj)
            rec = snap["objs"][i]
            for field in _CARD_FIELDS.get(rec.get("k"), ()):
                lo, hi = card_pair(rec[field])
                count = len(rec[_CARD_COUNT[field]])
                outside = (lo is not None and count < lo) or (hi is not None and count > hi)
                n = sum(1 for e in errs if e.obj is obj and
                        getattr(e.validation_id, "name", "") == _CARD_ISSUE[field])
                if n != (1 if outside else 0):
                    return ("card.report-exact", "validating the tree of obj#%d: obj#%d %s=%r count=%d "
                            "has %d %s issue(s), expected %d" % (U.index(root), i, field, (lo, hi), count,
                                                                  n, _CARD_ISSUE[field], 1 if outside else 0))
    return None


def mon_card(ctx):
    v = card_form(ctx.post)
    if v:
        return v
    if ctx.name in ("set_card", "set_card2") and kind_of(ctx.args.get("x")) in ("sec", "prop"):
        given = ctx.args.get("v") if ctx.name == "set_card" else (ctx.args.get("lo"), ctx.args.get("hi"))
        pair = clearly_valid_card(given)
        if pair is not None:
            if ctx.raised:
                return ("card.accepts-valid", "assignment of the valid cardinality %r raised %s: %s" %
                        (pair, ctx.outcome[1], ctx.outcome[2]))
            field = {"val": "val_card", "sec": "sec_card", "prop": "prop_card"}[ctx.op["which"]]
            rec = ctx.post["objs"][ctx.U.index(ctx.args["x"])]
            if field in rec and card_pair(rec[field]) != pair:
                return ("card.accepts-valid", "assignment of the valid cardinality %r stored %r" %
                        (pair, card_pair(rec[field])))
    if ctx.name in ("set_card", "set_card2") and kind_of(ctx.args.get("x")) in ("sec", "prop") \
            and not ctx.raised:
        # "any other assignment raises ValueError": a pair with a member that is a number and no
        # integer (1.0, 2.5) is no (min, max) pair of integers, whatever the object holds already
        given = ctx.args.get("v") if ctx.name == "set_card" else (ctx.args.get("lo"), ctx.args.get("hi"))
        if isinstance(given, (tuple, list)) and len(given) == 2 and any(
                isinstance(m, float) and m != 0 for m in given):
            return ("card.refusal-keeps", "assignment of %r (a member is no integer) was accepted" %
                    (given,))
    if ctx.name in ("set_card", "set_card2") and kind_of(ctx.args.get("x")) in ("sec", "prop") \
            and not ctx.raised:
        # what an assignment stores is a function of the assigned value: not of the setting the
        # object had before, not of the object
        given = ctx.args.get("v") if ctx.name == "set_card" else (ctx.args.get("lo"), ctx.args.get("hi"))
        field = {"val": "val_card", "sec": "sec_card", "prop": "prop_card"}.get(ctx.op.get("which"))
        rec = ctx.post["objs"][ctx.U.index(ctx.args["x"])]
        if field in rec:
            memo = ctx.mem.setdefault("card_memo", {})
            key = repr(given)
            if key in memo and memo[key] != rec[field]:
                return ("card.form", "assigning %r stored %r now and %r before (the result depends "
                        "on something else than the assigned value)" % (given, rec[field], memo[key]))
            memo.setdefault(key, rec[field])
    if ctx.name in ("set_card", "set_card2") and kind_of(ctx.args.get("x")) in ("sec", "prop"):
        # one object's setting: nobody else's cardinality moves with it
        me = ctx.U.index(ctx.args["x"])
        for j in range(min(len(ctx.pre["objs"]), len(ctx.post["objs"]))):
            if j == me:
                continue
            for field in _CARD_FIELDS.get(ctx.pre["objs"][j].get("k"), ()):
                if ctx.pre["objs"][j].get(field) != ctx.post["objs"][j].get(field):
                    return ("card.refusal-keeps", "assigning a cardinality to obj#%d changed %s of "
                            "obj#%d: %r -> %r" % (me, field, j, ctx.pre["objs"][j].get(field),
                                                  ctx.post["objs"][j].get(field)))
    if ctx.name in ("set_card", "set_card2") and ctx.raised:
        if ctx.outcome[1] != "ValueError" and "wrong_type" not in ctx.labels:
            return ("card.refusal-keeps", "%s raised %s: %s" % (ctx.name, ctx.outcome[1],
                                                                 ctx.outcome[2]))
        i = ctx.U.index(ctx.args["x"])
        if ctx.pre["objs"][i] != ctx.post["objs"][i]:
            return ("card.refusal-keeps", "refused cardinality assignment changed the object: %s" %
                    "; ".join(diff_snapshots(ctx.pre, ctx.post, only=[i])))
    if ctx.op.get("valid") and ctx.raised:
        return ("card.never-enforced", "valid-by-construction %s raised %s: %s" %
                (ctx.name, ctx.outcome[1], ctx.outcome[2]))
    v = card_reports(ctx.U, ctx.post)
    if v:
        return v
    if ctx.name == "restart" and not ctx.raised and "cards_before" in (ctx.outcome[1] or {}):
        # clean, save, load, finalize: the cardinality of everything that is there again
        # afterwards - in the loaded document and in the original, resolved again - is the one
        # it had before
        out = ctx.outcome[1]
        for where in ("cards_after", "cards_original"):
            for key, val in sorted(out["cards_before"].items()):
                if key in out[where] and out[where][key] != val:
                    return ("card.persisted", "%s: cardinalities %r before clean / save / load / "
                            "finalize through %s, %r afterwards (%s)" %
                            (key, val, ctx.op.get("backend"), out[where][key],
                             "loaded document" if where == "cards_after" else "original, resolved again"))
        return None
    if ctx.name == "restart" and not ctx.raised:
        new = ctx.U.objs[ctx.outcome[1]["new"]]
        old = ctx.args["d"]
        a = [o for o in ctx.U.subtree(old)]
        b = [o for o in ctx.U.subtree(new)]
        if len(a) != len(b):
            return None     # structure is C01/C02's business; only cardinalities are judged here
        for oa, ob in zip(a, b):
            ra, rb = ctx.post["objs"][ctx.U.index(oa)], ctx.post["objs"][ctx.U.index(ob)]
            if ra.get("k") != rb.get("k") or ra.get("id") != rb.get("id"):
                return None
            for field in _CARD_FIELDS.get(ra.get("k"), ()):
                if ra[field] != rb[field]:
                    return ("card.persisted", "%s of %s %r: %r before, %r after restart through %s" %
                            (field, ra["k"], ra.get("name"), ra[field], rb[field],
                             ctx.op.get("backend")))
    return None


# ------------------------------------------------------------------------------- C11

def nested(snap, idx, with_ids=True, depth=0):
    """Nested canonical tree below object idx of a snapshot."""
    rec = snap["objs"][idx]
    out = {k: v for k, v in rec.items() if k not in ("parent", "secs", "props", "merged")}
    if not with_ids:
        out.pop("id", None)
    if depth < MAX_DEPTH:
        out["secs"] = [nested(snap, i, with_ids, depth + 1) for i in rec.get("secs", []) if i >= 0]
        out["props"] = [nested(snap, i, with_ids, depth + 1) for i in rec.get("props", []) if i >= 0]
    return out


def subtree_indices(snap, idx):
    out = [idx]
    k = 0
    while k < len(out) and len(out) < 2000:
        rec = snap["objs"][out[k]]
        k += 1
        for i in list(rec.get("secs", [])) + list(rec.get("props", [])):
            if i >= 0 and i not in out:
                out.append(i)
    return out


def root_index(snap, idx):
    cur = idx
    for _ in range(MAX_DEPTH):
        par = snap["objs"][cur].get("parent")
        if par is None or par < 0:
            return cur
        cur = par
    return cur


REF_ARG_KEYS = ("t", "x", "y", "p", "d", "parent")
# ops that must not change any pre-existing object at all
OBSERVERS = ("clone", "clone_twice", "export_leaf", "template_clone", "get_values", "hold_list", "validate", "doc_validate",
             "validate_custom", "validate_keep", "validate_rerun", "validate_optional", "save", "load", "restart", "advance", "damage_file", "reseed", "add_raising_rule", "custom_again")


def footprint(ctx):
    """Indices (pre-state) of every object the op is allowed to change."""
    name = ctx.name
    if name in OBSERVERS or name == "alias_mutate":
        return set()
    involved = []
    keys = REF_ARG_KEYS
    if name == "merge":
        keys = ("t",)          # the source of a merge must stay as it was
    for key in keys:
        obj = ctx.args.get(key)
        if obj is not None and kind_of(obj) != "other":
            involved.append(obj)
    for obj in ctx.args.get("xs", []) or []:
        if kind_of(obj) != "other":
            involved.append(obj)
    allowed = set()
    n = len(ctx.pre["objs"])
    for obj in involved:
        i = ctx.U.index(obj)
        if i is None or i >= n:
            continue
        allowed.update(subtree_indices(ctx.pre, root_index(ctx.pre, i)))
    return allowed


def mon_frame(ctx):
    allowed = footprint(ctx)
    pre, post = ctx.pre, ctx.post
    for i in range(len(pre["objs"])):
        if i in allowed:
            continue
        if pre["objs"][i] != post["objs"][i]:
            return ("frame.untouched", "%s changed obj#%d outside its footprint: %s" % (
                ctx.name, i, "; ".join(diff_snapshots(pre, post, only=[i]))))
    mutated = None
    if ctx.name == "alias_mutate" and ctx.U.aliases:
        mutated = ctx.op["a"] % len(ctx.U.aliases)
    for k in range(len(pre["aliases"])):
        if k == mutated:
            continue
        if pre["aliases"][k] != post["aliases"][k]:
            return ("frame.untouched", "%s changed alias#%d: %r -> %r" %
                    (ctx.name, k, pre["aliases"][k], post["aliases"][k]))
    return None


def _inner_lists(obj):
    """Nested value lists as the public API hands them out: through .values and through item
    access (p[i] returns the stored item itself)."""
    out = []
    for v in obj.values:
        if isinstance(v, list):
            out.append(v)
    try:
        for k in range(len(obj)):
            v = obj[k]
            if isinstance(v, list):
                out.append(v)
    except Exception:
        pass
    return out


def mon_copy(ctx):
    v = mon_frame(ctx)
    if v:
        return v
    if ctx.raised:
        if ctx.name in ("clone", "export_leaf", "template_clone"):
            return ("copy.returns", "%s raised %s: %s" % (ctx.name, ctx.outcome[1], ctx.outcome[2]))
        return None
    U, post = ctx.U, ctx.post
    if ctx.name in ("clone", "template_clone"):
        # template_clone: the original is the Section of the template document the handler keeps
        orig = ctx.args["x"] if ctx.name == "clone" else U.objs[ctx.outcome[1]["of"]]
        new = U.objs[ctx.outcome[1]["new"]]
        oi, ni = U.index(orig), U.index(new)
        children = ctx.args.get("children", True) or kind_of(orig) == "prop"
        keep = ctx.args.get("keep_id", False)
        if new is orig:
            return ("copy.disjoint", "clone returned the original object")
        if kind_of(new) != "doc" and new.parent is not None:
            return ("copy.detached", "clone reports parent obj#%s" % U.index(new.parent))
        a_objs, b_objs = U.subtree(orig), U.subtree(new)
        if any(any(b is a for a in a_objs) for b in b_objs):
            return ("copy.disjoint", "the clone shares an odml object with the original")
        if not children:
            if len(b_objs) != 1:
                return ("copy.no-children", "clone(children=False) has %d descendants" %
                        (len(b_objs) - 1))
            ta, tb = dict(post["objs"][oi]), dict(post["objs"][ni])
            for key in ("id", "parent", "secs", "props", "merged"):
                ta.pop(key, None)
                tb.pop(key, None)
            if ta != tb:
                return ("copy.equal", "childless clone differs in own attributes: %r vs %r" % (ta, tb))
        else:
            ta, tb = nested(post, oi, with_ids=False), nested(post, ni, with_ids=False)
            if ta != tb:
                return ("copy.equal", "clone is not snapshot-equal to the original (ids ignored)")
            if not (new == orig):
                return ("copy.equal", "clone != original under the library's ==")
            inner_a = [lst for o in a_objs if kind_of(o) == "prop" for lst in _inner_lists(o)]
            for o in b_objs:
                if kind_of(o) == "prop":
                    for lst in _inner_lists(o):
                        if any(lst is la for la in inner_a):
                            return ("copy.disjoint", "a nested value list is shared with the original")
        ids_a = [o.id for o in a_objs]
        ids_b = [o.id for o in b_objs]
        if keep:
            if children and ids_a != ids_b:
                return ("copy.ids", "keep_id=True but ids differ")
            if not children and new.id != orig.id:
                return ("copy.ids", "keep_id=True but the id differs")
        else:
            shared = [i for i in ids_b if i in ids_a]
            if shared:
                return ("copy.ids", "%s clone without keep_id reuses id(s) %s" %
                        (kind_of(orig), shared[:2]))
            if len(set(ids_b)) != len(ids_b):
                return ("copy.ids", "ids inside the clone are not pairwise distinct")
            # "fresh": held by no other object the session has seen (an earlier copy included)
            mine = set(id(o) for o in b_objs)
            for j, other in enumerate(U.objs):
                if id(other) not in mine and kind_of(other) != "other" and other.id in ids_b:
                    return ("copy.ids", "the clone without keep_id carries the id %s of obj#%d, "
                            "which is no part of it" % (other.id, j))
    if ctx.name == "clone_twice":
        first = U.objs[ctx.outcome[1]["new"]]
        again = U.objs[ctx.outcome[1]["again"]]
        if ctx.op.get("second") == "export_leaf" and kind_of(first) != "doc":
            a_ids = [o.id for o in ([first] if kind_of(first) == "prop" else
                                    [first] + [p for p in first.properties])]
            b_ids = [o.id for o in U.subtree(again)]
            if not all(i in b_ids for i in a_ids):
                return ("copy.ids", "export_leaf of a fresh clone does not carry the clone's ids")
        else:
            a_ids = [o.id for o in U.subtree(first)]
            b_ids = [o.id for o in U.subtree(again)]
            if a_ids != b_ids:
                return ("copy.ids", "keep_id copy of a fresh clone has other ids than the clone")
    if ctx.name == "export_leaf":
        orig = ctx.args["x"]
        new = U.objs[ctx.outcome[1]["new"]]
        a_chain = [orig] + U.ancestors(orig)
        if kind_of(orig) == "prop":
            a_chain = a_chain[1:]
        if any(new is o for o in U.subtree(U.top(orig))):
            return ("copy.disjoint", "export_leaf returned an object of the original tree")
        # expected: the chain root -> object, every Section on it with all its Properties only
        chain = list(reversed(a_chain))
        if not chain:     # detached Property: the chain is the Property itself
            exp = nested(ctx.pre, U.index(orig))
        else:
            exp = None
            for node in reversed(chain):
                rec = nested(ctx.pre, U.index(node))
                rec["secs"] = [exp] if exp is not None else []
                if rec["k"] == "sec":
                    for p in rec["props"]:
                        p["secs"], p["props"] = [], []
                exp = rec
        got = nested(post, U.index(new))
        if got != exp:
            return ("copy.leaf-shape", "export_leaf result differs from the chain root->object "
                    "with all Properties and original ids")
        if kind_of(new) != "doc" and new.parent is not None:
            return ("copy.detached", "export_leaf result reports a parent")
    return None


def copy_on_corrupt(ctx):
    """Identity part of the copy oracle; safe on a tree the copy op itself has broken."""
    if ctx.raised or ctx.name not in ("clone", "export_leaf"):
        return None
    U = ctx.U
    orig = ctx.args["x"]
    new = U.objs[ctx.outcome[1]["new"]]
    if new is orig:
        return ("copy.disjoint", "%s returned the original object" % ctx.name)
    a_objs = U.subtree(U.top(orig)) if ctx.name == "export_leaf" else U.subtree(orig)
    # walk the copy through its own child lists only
    for b in U.subtree(new):
        if b is not new and any(b is a for a in a_objs):
            return ("copy.disjoint", "the result of %s lists obj#%s, an object of the original" %
                    (ctx.name, U.index(b)))
    return None


mon_copy.on_corrupt = copy_on_corrupt


# ------------------------------------------------------------------------------- C19

def build_probe():
    """A fixed document that triggers every default rule: its default validation result is
    the public-API fingerprint of the default rule set."""
    import odml
    doc = odml.Document(author="probe")
    s1 = odml.Section(name="s1", type="t", parent=doc)
    s2 = odml.Section(name="s2", parent=doc)                 # type n.s. -> warning
    s3 = odml.Section(type="t", parent=doc)                  # name == id -> warning
    p1 = odml.Property(name="p1", values=[1, 2, 3], parent=s1)
    p1.val_cardinality = (None, 2)                           # cardinality warning
    odml.Property(name="p2", values="17", dtype="string", parent=s1)   # string looks like int
    odml.Property(name="p3", values="a", parent=s1, dependency="nope")  # missing dependency
    s1.prop_cardinality = (5, None)
    s1.sec_cardinality = (1, None)
    dup = p1.clone(keep_id=True)
    dup.name = "p1dup"
    s2.append(dup)                                           # duplicate id -> error
    s3.type = None                                           # missing required attribute -> error
    return doc


def probe_issues(doc):
    from odml.validation import Validation
    out = []
    for err in Validation(doc).errors:
        vid = err.validation_id
        name = getattr(err.obj, "name", None)
        out.append([type(err.obj).__name__, name if name != getattr(err.obj, "id", None) else "<id>",
                    getattr(vid, "name", str(vid)), err.rank])
    out.sort(key=repr)
    return out


def valid_prelude(U, interp, env, mem):
    from . import seams
    # the reference is the registry at import time, not after the probe has been built: building
    # it creates objects and sets cardinalities, which is exactly what must not alter the rules
    mem["registry"] = seams.import_time_fingerprint()
    mem["probe"] = build_probe()
    mem["probe_issues"] = probe_issues(mem["probe"])


VALIDATION_OPS = ("validate", "doc_validate", "validate_custom", "validate_keep", "validate_rerun",
                  "validate_optional", "custom_again")


def mon_valid(ctx):
    from . import seams
    if ctx.name in VALIDATION_OPS:
        v = mon_frame(ctx)
        if v:
            return ("valid.pure", v[1])
        if ctx.raised:
            # whether a validation may raise is C08's statement, not C19's: only purity is judged
            return None
        out = ctx.outcome[1]
        if ctx.name == "validate_keep":
            return None
        if ctx.name == "validate_custom" and "kept_expected" in out and \
                out["kept_issues"] != out["kept_expected"]:
            return ("valid.private", "a rule registered on a custom Validation is applied only while "
                    "somebody else holds the function: %r vs %r" %
                    (out["kept_issues"][:2], out["kept_expected"][:2]))
        if ctx.name == "custom_again":
            if out["now"] != out["stored"]:
                return ("valid.private", "the issue list of a kept custom Validation changed although "
                        "nobody ran it: %r then, %r now" % (out["stored"][:2], out["now"][:2]))
            if "rerun" in out and out["rerun"] != out["twin"]:
                return ("valid.repeatable", "a kept custom Validation, run again, reports %r; a new one "
                        "with the same rule reports %r" % (out["rerun"][:2], out["twin"][:2]))
            return None
        if ctx.name in ("validate", "doc_validate", "validate_rerun", "validate_optional"):
            if out["issues"] != out["again"] or out["issues"] != out["rerun"]:
                other = out["again"] if out["issues"] != out["again"] else out["rerun"]
                a = [i for i in out["issues"] if i not in other]
                b = [i for i in other if i not in out["issues"]]
                return ("valid.repeatable", "same objects validated twice: only first %r, only "
                        "second %r" % (a[:2], b[:2]))
            if any(i[3] == "simkit-marker" for i in out["issues"]):
                return ("valid.private", "a custom rule shows up in a default validation")
            if out.get("report") is not None and out.get("report") != out.get("report_fresh"):
                return ("valid.repeatable", "report() of a kept Validation, asked again, says %r; "
                        "a fresh Validation of the same objects says %r" %
                        (out["report"], out["report_fresh"]))
        elif out.get("raising"):
            if out["issues"] != out["again"]:
                return ("valid.repeatable", "a custom validation whose rule raises for some objects "
                        "behaves differently when run again: %r then %r" %
                        (out["issues"][:2], out["again"][:2]))
        else:
            if not out["empty_at_start"]:
                return ("valid.private", "a Validation created with reset=True already has rules")
            if not out.get("late_rule_applied", True):
                return ("valid.private", "a rule registered on a reset Validation after its first run "
                        "is not applied by the next run (or not to the same objects)")
            if any(i[3] != "simkit-marker" for i in out["issues"]):
                return ("valid.private", "a reset Validation applied rules that were not "
                        "registered on it: %r" % ([i for i in out["issues"]
                                                   if i[3] != "simkit-marker"][:2],))
    now = probe_issues(ctx.mem["probe"])
    if now != ctx.mem["probe_issues"]:
        a = [i for i in ctx.mem["probe_issues"] if i not in now]
        b = [i for i in now if i not in ctx.mem["probe_issues"]]
        return ("valid.registry", "default validation of the fixed probe document changed after "
                "%s: lost %r, gained %r" % (ctx.name, a[:3], b[:3]))
    reg = seams.validation_fingerprint()
    if reg != ctx.mem["registry"]:
        diff = ["%s: +%s -%s" % (k, sorted(set(reg.get(k, [])) - set(ctx.mem["registry"].get(k, []))),
                                 sorted(set(ctx.mem["registry"].get(k, [])) - set(reg.get(k, []))))
                for k in sorted(set(reg) | set(ctx.mem["registry"]))
                if reg.get(k) != ctx.mem["registry"].get(k)]
        return ("valid.registry", "default rule registry differs from the import-time registry "
                "after %s (or after building the probe document before it): %s" %
                (ctx.name, "; ".join(diff)[:300]))
    return None
