"""Monitors: invariants and before/after relations evaluated after every op.

Each monitor belongs to exactly one property; a check enables only its own.
A monitor returns None or (monitor_id, message).
"""
import datetime as _dt
import uuid as _uuid

from . import boot  # noqa: F401
from odml import dtypes as _dtypes
from .universe import kind_of, diff_snapshots, MAX_DEPTH


class Ctx(object):
    """What a monitor sees of one step."""
    __slots__ = ("op", "args", "labels", "outcome", "pre", "post", "U", "env", "mem", "step")

    def __init__(self, **kw):
        for k, v in kw.items():
            setattr(self, k, v)

    @property
    def raised(self):
        return self.outcome[0] == "exc"

    @property
    def name(self):
        return self.op["op"]


# ------------------------------------------------------------------------------- C03

def _child_lists(U):
    """id(child) -> list of containers (registry order) listing it, with multiplicity."""
    occ = {}
    for cont in U.objs:
        knd = kind_of(cont)
        if knd in ("doc", "sec"):
            for ch in list(cont.sections):
                occ.setdefault(id(ch), []).append(cont)
        if knd == "sec":
            for ch in list(cont.properties):
                occ.setdefault(id(ch), []).append(cont)
    return occ


def tree_structure(U):
    """Clauses 1-4 of C03 on the live universe.  Bounded: cannot hang on a broken tree."""
    occ = _child_lists(U)
    for i, obj in enumerate(U.objs):
        knd = kind_of(obj)
        if knd not in ("sec", "prop"):
            continue
        par = obj.parent
        where = occ.get(id(obj), [])
        if par is None:
            if where:
                return ("tree.child-parent",
                        "obj#%d reports no parent but is listed in obj#%s" %
                        (i, [U.index(c) for c in where]))
            continue
        pk = kind_of(par)
        if pk not in ("doc", "sec") or (knd == "prop" and pk != "sec"):
            return ("tree.single-membership", "obj#%d reports a parent of kind %s" % (i, pk))
        mine = [c for c in where if c is par]
        if len(mine) != 1:
            return ("tree.single-membership",
                    "obj#%d reports parent obj#%s but occurs %d times in its child list" %
                    (i, U.index(par), len(mine)))
        if len(where) != 1:
            return ("tree.single-membership",
                    "obj#%d (parent obj#%s) is also listed in obj#%s" %
                    (i, U.index(par), [U.index(c) for c in where if c is not par]))
    # acyclic
    for i, obj in enumerate(U.objs):
        if kind_of(obj) != "sec":
            continue
        seen = [obj]
        cur = obj
        for _ in range(MAX_DEPTH):
            cur = cur.parent if kind_of(cur) != "doc" else None
            if cur is None:
                break
            if any(cur is s for s in seen):
                return ("tree.acyclic", "obj#%d is its own ancestor" % i)
            seen.append(cur)
        else:
            return ("tree.acyclic", "parent chain of obj#%d exceeds depth %d" % (i, MAX_DEPTH))
    return None


def tree_document(U):
    for i, obj in enumerate(U.objs):
        top = U.top(obj)
        want = top if kind_of(top) == "doc" else None
        got = obj.document
        if got is not want:
            return ("tree.document", "obj#%d .document is obj#%s, top of its chain is obj#%s (%s)" %
                    (i, U.index(got) if got is not None else None, U.index(top), kind_of(top)))
    return None


def tree_terminates(U):
    """C03 promises termination only; what the traversals return is C14's statement."""
    for obj in U.objs:
        knd = kind_of(obj)
        if knd in ("sec", "prop"):
            obj.get_path()
        if knd in ("doc", "sec"):
            n = 0
            for _ in obj.itersections():
                n += 1
                if n > 5000:
                    return ("tree.terminates", "itersections yields more than 5000 objects")
            n = 0
            for _ in obj.iterproperties():
                n += 1
                if n > 5000:
                    return ("tree.terminates", "iterproperties yields more than 5000 objects")
    return None


def mon_tree(ctx):
    v = tree_structure(ctx.U)
    if v:
        return v
    v = tree_document(ctx.U)
    if v:
        return v
    return tree_terminates(ctx.U)


# ------------------------------------------------------------------------------- C04

def names_ids(U):
    for i, obj in enumerate(U.objs):
        knd = kind_of(obj)
        if knd == "other":
            continue
        oid = obj.id
        try:
            ok = isinstance(oid, str) and str(_uuid.UUID(oid)) == oid
        except (ValueError, AttributeError, TypeError):
            ok = False
        if not ok:
            return ("ids.canonical", "obj#%d has id %r" % (i, oid))
        if knd in ("sec", "prop"):
            if not isinstance(obj.name, str) or obj.name == "":
                return ("names.nonempty", "obj#%d has name %r" % (i, obj.name))
        if knd in ("doc", "sec"):
            seen = {}
            for ch in list(obj.sections):
                if ch.name in seen and seen[ch.name] is not ch:
                    return ("names.unique-sections",
                            "obj#%d has two child Sections named %r" % (i, ch.name))
                seen[ch.name] = ch
        if knd == "sec":
            seen = {}
            for ch in list(obj.properties):
                if ch.name in seen and seen[ch.name] is not ch:
                    return ("names.unique-properties",
                            "obj#%d has two Properties named %r" % (i, ch.name))
                seen[ch.name] = ch
    return None


def names_lookup(U):
    for i, obj in enumerate(U.objs):
        knd = kind_of(obj)
        if knd in ("doc", "sec"):
            for ch in list(obj.sections):
                if obj.sections[ch.name] is not ch:
                    return ("names.lookup", "obj#%d.sections[%r] is not the holder" % (i, ch.name))
        if knd == "sec":
            for ch in list(obj.properties):
                if obj.properties[ch.name] is not ch:
                    return ("names.lookup", "obj#%d.properties[%r] is not the holder" % (i, ch.name))
    return None


def mon_names(ctx):
    v = names_ids(ctx.U)
    if v:
        return v
    v = names_lookup(ctx.U)
    if v:
        return v
    op, a = ctx.op, ctx.args
    if ctx.name == "rename" and not a["name"] and not ctx.raised:
        x = a["x"]
        if kind_of(x) in ("sec", "prop") and x.name != x.id:
            return ("names.fallback", "rename to %r left name %r (id %s)" % (a["name"], x.name, x.id))
    if ctx.name in ("new_doc", "new_sec", "new_prop", "create_section", "create_property") \
            and "id_malformed" in ctx.labels:
        if ctx.raised and ctx.outcome[1] == "ValueError" and "uuid" in ctx.outcome[2].lower():
            return ("ids.ctor-replace", "constructor refused malformed id %r" % (a.get("oid"),))
        if not ctx.raised:
            obj = ctx.U.objs[ctx.outcome[1]["new"]]
            if obj.id == a.get("oid"):
                return ("ids.ctor-replace", "malformed id %r was kept" % (a.get("oid"),))
    if ctx.name == "new_id" and "id_malformed" in ctx.labels:
        if not ctx.raised:
            return ("ids.new_id-reject", "new_id(%r) was accepted" % (a.get("oid"),))
        i = ctx.U.index(a["x"])
        if ctx.pre["objs"][i]["id"] != ctx.post["objs"][i]["id"]:
            return ("ids.new_id-reject", "failed new_id changed the id")
    return None


# ------------------------------------------------------------------------------- C05

_PYTYPE = {
    "int": int, "float": float, "boolean": bool, "string": str, "text": str, "url": str,
    "person": str, "date": _dt.date, "time": _dt.time, "datetime": _dt.datetime,
}


def _value_ok(val, dtype):
    if dtype is None:
        return True, ""
    if dtype.endswith("-tuple"):
        n = int(dtype[:-6])
        if not (isinstance(val, list) and len(val) == n and all(type(e) is str for e in val)):
            return False, "is not a list of %d strings" % n
        return True, ""
    want = _PYTYPE.get(dtype.lower() if isinstance(dtype, str) else dtype)
    if want is None:
        return False, "dtype %r has no Python type" % (dtype,)
    if type(val) is not want:
        return False, "has Python type %s" % type(val).__name__
    if isinstance(val, (_dt.datetime, _dt.time)) and val.microsecond:
        return False, "carries a sub-second part"
    return True, ""


def values_typed(U):
    for i, obj in enumerate(U.objs):
        if kind_of(obj) != "prop":
            continue
        dtype = obj.dtype
        if dtype is not None and not _dtypes.valid_type(dtype):
            return ("values.dtype-valid", "obj#%d has dtype %r" % (i, dtype))
        vals = obj.values
        for v in vals:
            ok, why = _value_ok(v, str(dtype) if dtype is not None else None)
            if not ok:
                return ("values.typed", "obj#%d (dtype %s): value %r %s" % (i, dtype, v, why))
        if len(obj) != len(vals):
            return ("values.typed", "obj#%d: len() %d != len(values) %d" % (i, len(obj), len(vals)))
    return None


def values_normal_form(U):
    for i, obj in enumerate(U.objs):
        if kind_of(obj) != "prop":
            continue
        dtype = obj.dtype
        if dtype is None:
            continue
        for k, v in enumerate(obj.values):
            try:
                text = _dtypes.set(v, dtype)
                back = _dtypes.get(text, dtype)
            except Exception as exc:
                return ("values.normal-form", "obj#%d value %r: text round trip raised %s: %s" %
                        (i, v, type(exc).__name__, exc))
            if back != v or type(back) is not type(v):
                return ("values.normal-form", "obj#%d value %r -> text %r -> %r" % (i, v, text, back))
            if not str(dtype).endswith("-tuple"):
                try:
                    back = _dtypes.get(str(v), dtype)
                except Exception as exc:
                    return ("values.normal-form", "obj#%d value %r: str() round trip raised %s" %
                            (i, v, type(exc).__name__))
                if back != v or type(back) is not type(v):
                    return ("values.normal-form", "obj#%d value %r -> str %r -> %r" %
                            (i, v, str(v), back))
            if obj.value_str(k) != text:
                return ("values.normal-form", "obj#%d value_str(%d) %r != %r" %
                        (i, k, obj.value_str(k), text))
    return None


VALUE_OPS = ("set_values", "set_dtype", "v_append", "v_extend", "v_extend_prop", "v_insert",
             "v_setitem", "v_remove", "v_remove_at", "reassign_values")
# exceptions that are not conversion failures and are accepted as refusals
_OK_NONCONV = {
    "v_setitem": ("IndexError",), "v_insert": ("IndexError",), "set_dtype": ("AttributeError",),
}


def mon_values(ctx):
    v = values_typed(ctx.U)
    if v:
        return v
    v = values_normal_form(ctx.U)
    if v:
        return v
    name = ctx.name
    if name in VALUE_OPS or name in ("new_prop", "create_property", "merge", "clone"):
        x = ctx.args.get("x")
        if name in VALUE_OPS and kind_of(x) == "prop":
            i = ctx.U.index(x)
            pre, post = ctx.pre["objs"][i], ctx.post["objs"][i]
            if ctx.raised:
                exc = ctx.outcome[1]
                if exc != "ValueError" and exc not in _OK_NONCONV.get(name, ()):
                    if exc in ("TypeError", "AttributeError") and \
                            ("wrong_type" in ctx.labels):
                        pass
                    else:
                        return ("values.refusal", "%s raised %s: %s" % (name, exc, ctx.outcome[2]))
                if pre["values"] != post["values"] or pre["dtype"] != post["dtype"]:
                    return ("values.refusal", "refused %s changed values/dtype: %s" %
                            (name, "; ".join(diff_snapshots(ctx.pre, ctx.post, only=[i]))))
            elif name == "set_dtype":
                # a string holding the bracketed text form of several n-tuples is legitimately
                # expanded when the dtype becomes an n-tuple type: only a loss is judged there
                grew_tuple = str(post["dtype"][1] if post["dtype"] else "").endswith("-tuple") and \
                    len(post["values"]) > len(pre["values"])
                if len(pre["values"]) != len(post["values"]) and not grew_tuple:
                    return ("values.dtype-change", "dtype change altered the number of values "
                            "%d -> %d" % (len(pre["values"]), len(post["values"])))
            elif name == "reassign_values":
                if pre != post:
                    return ("values.normal-form", "p.values = p.values changed the Property: %s" %
                            "; ".join(diff_snapshots(ctx.pre, ctx.post, only=[i])))
    return None


# ------------------------------------------------------------------------------- C06

def mon_atomic(ctx):
    if not ctx.raised:
        return None
    pre, post = ctx.pre, ctx.post
    n = len(pre["objs"])
    if pre["objs"] != post["objs"][:n] or pre["aliases"] != post["aliases"][:len(pre["aliases"])]:
        return ("atomic.unchanged", "%s raised %s but the state changed: %s" % (
            ctx.name, ctx.outcome[1], "; ".join(diff_snapshots(pre, post))))
    # a new (half constructed) object attached to a pre-existing object
    for j in range(n, len(post["objs"])):
        rec = post["objs"][j]
        par = rec.get("parent")
        if par is not None and 0 <= par < n:
            return ("atomic.unchanged", "%s raised %s but new obj#%d is attached to obj#%d" %
                    (ctx.name, ctx.outcome[1], j, par))
    return None
