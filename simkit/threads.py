"""THREADS engine: deterministic scheduling of the library's real loader threads.

SyncThreading is the degenerate schedule used by the other engines: a spawned
loader runs to completion inside start() - a legal schedule, single threaded and
replayable.  The baton-passing scheduler for C18 is in sched.py.
"""
import threading as _real


class _SyncThread(object):
    _count = [0]

    def __init__(self, group=None, target=None, name=None, args=(), kwargs=None, daemon=None):
        self._target = target
        self._args = args
        self._kwargs = kwargs or {}
        self._started = False
        self._done = False
        self.name = name or "L"
        self.daemon = daemon
        self.exc = None

    def start(self):
        if self._started:
            raise RuntimeError("threads can only be started once")
        self._started = True
        try:
            if self._target is not None:
                self._target(*self._args, **self._kwargs)
        except Exception as exc:  # a real thread would die silently
            self.exc = exc
        finally:
            self._done = True

    def run(self):
        if self._target is not None:
            self._target(*self._args, **self._kwargs)

    def join(self, timeout=None):
        if not self._started:
            raise RuntimeError("cannot join thread before it is started")

    def is_alive(self):
        return self._started and not self._done

    isAlive = is_alive


class SyncThreading(object):
    """Stands in for the module ``threading`` as seen from odml.terminology/templates."""
    Thread = _SyncThread

    def __getattr__(self, name):
        return getattr(_real, name)
