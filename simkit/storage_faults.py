"""Storage-fault plans applied to stored bytes between a save and the next load
(DESIGN.md appendix E)."""
import re

KINDS = ["truncate", "zero", "garbage", "bitflip", "drop", "dup", "swap", "torn", "stale", "subst"]

# 'subst': the scalar stored for one field is replaced by other text - what a misdirected write
# of another field, a writer of another tool or a hand edit leaves behind.  The texts are the ones
# the scalar parsers of a reader meet: other number spellings, other types, extremes.
SUBST_TEXTS = [
    "", " ", "None", "null", "~", "true", "1", "-1", "1.5", "1e400", "nan", "inf", "0x10",
    "\u00b2", "\u0663", "\uff12\uff10\uff12\uff10-01-02", "9" * 5000, "(\u00b2,3)", "(1," + "9" * 5000 + ")",
    "(1,2)", "(2,1)", "(None,None)", "(1,2,3)", "(-1,2)", "(1.0,2.0)", "[1, 2]", "[a, b]", "{a: 1}",
    "2020-13-45", "2020-01-02", "12:34:56", "2020-01-02 03:04:05", "0000-00-00",
    ".inf", ".nan", "Infinity", "NaN", "-.inf", "1e999", "2.0", "1e2",
    "5b6a1b40-2bd4-4a12-8f3c-0a1b2c3d4e5f", "not-an-id", "1.1", "1.0", "2", "int", "2-tuple",
    "10-tuple", "bogus", "a/b", "..", "%s", "{0}", "\\", "&amp;", "a: b", "- x", "# c", "'", '"',
]

_TEXT_SPANS = re.compile(rb">([^<>\n]+)<")                 # XML text nodes
_SCALARS = re.compile(rb"[:\-] +([^\n]+)\n|\"([^\"\n]*)\"")  # YAML scalars / JSON strings


_HOT = re.compile(rb"(?:<(?:date|id|version|type|name|val_cardinality|sec_cardinality|"
                  rb"prop_cardinality|uncertainty)>([^<\n]+)<)|"
                  rb"(?:\"?(?:date|id|odml-version|type|name|val_cardinality|sec_cardinality|"
                  rb"prop_cardinality|uncertainty|Document|sections|properties)\"?: *([^\n]+))")


_UUID_RE = re.compile(rb"[0-9a-f]{8}-[0-9a-f]{4}-[0-9a-f]{4}-[0-9a-f]{4}-[0-9a-f]{12}")
_CARD_ITEMS = re.compile(rb"_cardinality\"?: *\[?\n *(?:- )?([^\n,]+),?\n *(?:- )?([^\n,]+)\n")


def hot_spans(data):
    """Byte spans of the scalars most likely to upset a reader (dates, ids, versions, names,
    dtype names, cardinalities, structural keys)."""
    out = []
    for m in _HOT.finditer(data):
        span = m.span(1) if m.group(1) is not None else m.span(2)
        if span[1] > span[0]:
            out.append(span)
    # JSON / YAML write a cardinality as a list of two items on lines of their own
    for m in _CARD_ITEMS.finditer(data):
        out.append(m.span(1))
        out.append(m.span(2))
    return out


def plan(rng, data, n_faults, kinds, has_old=True, aligned=None):
    """Draw a plan of n_faults faults for the given stored bytes."""
    out = []
    lines = data.count(b"\n") + 1
    multi = [r for r in (aligned or []) if r[1] - r[0] > 2]
    if n_faults >= 2 and multi and rng.random() < 0.4:
        # clustered plan: all faults hit the record of one element (a lost line and a flipped
        # bit in the same Property is what one bad sector does)
        l1, l2 = rng.choice(multi)
        starts, pos = [], 0
        for ln in data.split(b"\n"):
            starts.append(pos)
            pos += len(ln) + 1
        starts.append(pos)
        for _ in range(n_faults):
            if rng.random() < 0.5:
                k = rng.randrange(l1 + 1, l2)
                out.append({"kind": "drop", "l1": k, "l2": k + 1})
            else:
                a, b = starts[l1], max(starts[l1] + 1, starts[min(l2, len(starts) - 1)] - 1)
                spans = [sp for sp in hot_spans(data) if a <= sp[0] < b] or \
                    [m.span(1) for m in _TEXT_SPANS.finditer(data) if a <= m.start(1) < b]
                if spans:
                    x, y = rng.choice(spans)
                    off = rng.randrange(x, max(x + 1, y))
                    if "subst" in kinds and rng.random() < 0.5:
                        # the whole scalar replaced (a lost line and another field's text in
                        # one record)
                        while x < y and data[y - 1:y] in (b",", b" ", b"\r"):
                            y -= 1
                        if y - x >= 2 and data[x:x + 1] in (b'"', b"'") and data[y - 1:y] == data[x:x + 1]:
                            x, y = x + 1, y - 1
                        out.append({"kind": "subst", "off": x, "end": y,
                                    "text": rng.choice(SUBST_TEXTS)})
                        continue
                else:
                    off = rng.randrange(a, b)
                out.append({"kind": "bitflip", "off": off, "bit": rng.randrange(8)})
        # byte-addressed faults first (their offsets refer to the undamaged text), then the drops
        # top down: later line numbers shift, so they go in descending order.  Several substituted
        # scalars: from the back, so that earlier offsets stay valid.
        out.sort(key=lambda f: (f["kind"] == "drop", -f.get("l1", -1), -f.get("off", 0)))
        return out
    for _ in range(n_faults):
        kind = rng.choice(kinds)
        if kind in ("torn", "stale") and not has_old:
            kind = "truncate"
        if kind == "truncate":
            if rng.random() < 0.5:
                k = rng.randrange(max(1, len(data)))
            else:   # just after a record boundary
                nl = [m.start() + 1 for m in re.finditer(b"\n", data)]
                k = rng.choice(nl) if nl else rng.randrange(max(1, len(data)))
            out.append({"kind": "truncate", "k": k})
        elif kind in ("zero", "garbage"):
            ln = rng.choice([1, 1, 16, 512])
            off = rng.randrange(max(1, len(data)))
            out.append({"kind": kind, "off": off, "len": ln, "seed": rng.randrange(1 << 30)})
        elif kind == "bitflip":
            off = None
            r = rng.random()
            if r < 0.35:
                spans = hot_spans(data)
                if spans:
                    a, b = rng.choice(spans)
                    off = rng.randrange(a, b)
            if off is None and r < 0.8:
                spans = [m.span(1) for m in _TEXT_SPANS.finditer(data)]
                if not spans:
                    spans = [m.span(1) if m.group(1) is not None else m.span(2)
                             for m in _SCALARS.finditer(data)]
                spans = [s for s in spans if s[1] > s[0]]
                if spans:
                    a, b = rng.choice(spans)
                    off = rng.randrange(a, b)
            if off is None:
                off = rng.randrange(max(1, len(data)))
            out.append({"kind": "bitflip", "off": off, "bit": rng.randrange(8)})
        elif kind in ("drop", "dup"):
            if aligned and rng.random() < 0.5:
                l1, l2 = rng.choice(aligned)
            else:
                l1 = rng.randrange(lines)
                l2 = min(lines, l1 + rng.choice([1, 1, 1, 2, 3, 6]))
            out.append({"kind": kind, "l1": l1, "l2": l2})
        elif kind == "swap":
            if aligned and len(aligned) >= 2 and rng.random() < 0.5:
                a, b = sorted(rng.sample(aligned, 2))
                if a[1] <= b[0]:
                    out.append({"kind": "swap", "l1": a[0], "l2": a[1], "l3": b[0], "l4": b[1]})
                    continue
            l1 = rng.randrange(lines)
            l2 = min(lines, l1 + rng.choice([1, 2, 4]))
            l3 = min(lines, l2 + rng.randrange(0, 6))
            l4 = min(lines, l3 + rng.choice([1, 2, 4]))
            out.append({"kind": "swap", "l1": l1, "l2": l2, "l3": l3, "l4": l4})
        elif kind == "subst":
            spans = hot_spans(data)
            if rng.random() < 0.3 or not spans:
                spans = [m.span(1) for m in _TEXT_SPANS.finditer(data)] or \
                    [m.span(1) if m.group(1) is not None else m.span(2)
                     for m in _SCALARS.finditer(data)] or spans
            spans = [sp for sp in spans if sp[1] > sp[0]]
            if not spans:
                out.append({"kind": "bitflip", "off": rng.randrange(max(1, len(data))),
                            "bit": rng.randrange(8)})
                continue
            a, b = rng.choice(spans)
            # keep the quotes and the comma of a JSON / YAML scalar: the text inside changes
            while a < b and data[b - 1:b] in (b",", b" ", b"\r"):
                b -= 1
            if b - a >= 2 and data[a:a + 1] in (b'"', b"'") and data[b - 1:b] == data[a:a + 1]:
                a, b = a + 1, b - 1
            text = rng.choice(SUBST_TEXTS)
            ids = _UUID_RE.findall(data)
            if ids and _UUID_RE.fullmatch(data[a:b]) and rng.random() < 0.6:
                # an id copied from elsewhere in the same file: the Document's (the first one) or
                # any other
                text = (ids[0] if rng.random() < 0.5 else rng.choice(ids)).decode("ascii")
            out.append({"kind": "subst", "off": a, "end": b, "text": text})
        elif kind == "torn":
            out.append({"kind": "torn", "k": rng.randrange(max(1, len(data)))})
        elif kind == "stale":
            out.append({"kind": "stale"})
    return out


def apply(data, faults, old=None):
    import random
    for f in faults:
        kind = f["kind"]
        if kind == "truncate":
            data = data[:f["k"]]
        elif kind == "zero":
            off = min(f["off"], len(data))
            data = data[:off] + b"\x00" * min(f["len"], len(data) - off) + data[off + f["len"]:]
        elif kind == "garbage":
            off = min(f["off"], len(data))
            rng = random.Random(f["seed"])
            n = min(f["len"], len(data) - off)
            data = data[:off] + bytes(rng.randrange(256) for _ in range(n)) + data[off + n:]
        elif kind == "bitflip":
            if data:
                off = min(f["off"], len(data) - 1)
                data = data[:off] + bytes([data[off] ^ (1 << f["bit"])]) + data[off + 1:]
        elif kind in ("drop", "dup", "swap"):
            lines = data.split(b"\n")
            n = len(lines)
            if kind == "drop":
                lines = lines[:min(f["l1"], n)] + lines[min(f["l2"], n):]
            elif kind == "dup":
                a, b = min(f["l1"], n), min(f["l2"], n)
                lines = lines[:b] + lines[a:b] + lines[b:]
            else:
                a, b, c, d = [min(f[k], n) for k in ("l1", "l2", "l3", "l4")]
                if a <= b <= c <= d:
                    lines = lines[:a] + lines[c:d] + lines[b:c] + lines[a:b] + lines[d:]
            data = b"\n".join(lines)
        elif kind == "subst":
            a, b = min(f["off"], len(data)), min(f["end"], len(data))
            data = data[:a] + f["text"].encode("utf-8") + data[b:]
        elif kind == "torn":
            if old is not None:
                k = min(f["k"], len(data))
                data = data[:k] + old[k:]
        elif kind == "stale":
            if old is not None:
                data = old
    return data
