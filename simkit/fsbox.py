"""Engine FSBOX: a per-run directory on tmpfs - real files, real readers and writers -
with directory snapshots, pre-populated targets, failing opens and a seeded
directory-listing order (DESIGN.md 3.5)."""
import builtins
import contextlib
import errno
import hashlib
import os
import stat


def snapshot(root):
    """relative path -> (kind, size, sha256) for everything below root."""
    out = {}
    for dirpath, dirnames, filenames in _real_walk(root):
        rel = os.path.relpath(dirpath, root)
        if rel != ".":
            out[rel + "/"] = ("dir", 0, "")
        for name in filenames:
            path = os.path.join(dirpath, name)
            relp = os.path.normpath(os.path.join(rel, name))
            try:
                st = os.lstat(path)
                if stat.S_ISREG(st.st_mode):
                    with _REAL_OPEN(path, "rb") as fobj:
                        data = fobj.read()
                    out[relp] = ("file", len(data), hashlib.sha256(data).hexdigest())
                else:
                    out[relp] = ("other", 0, "")
            except OSError as exc:
                out[relp] = ("error", 0, str(exc))
    return out


def diff(before, after):
    created = sorted(p for p in after if p not in before)
    removed = sorted(p for p in before if p not in after)
    changed = sorted(p for p in after if p in before and after[p] != before[p])
    return created, changed, removed


_REAL_OPEN = builtins.open
_REAL_LISTDIR = os.listdir
_REAL_SCANDIR = os.scandir
_real_walk_fn = os.walk


def _real_walk(root):
    """os.walk on the real, unpermuted listing (sorted for determinism)."""
    stack = [root]
    while stack:
        cur = stack.pop()
        try:
            names = sorted(_REAL_LISTDIR(cur))
        except OSError:
            continue
        dirs, files = [], []
        for name in names:
            full = os.path.join(cur, name)
            if os.path.isdir(full) and not os.path.islink(full):
                dirs.append(name)
            else:
                files.append(name)
        yield cur, dirs, files
        for name in reversed(dirs):
            stack.append(os.path.join(cur, name))


class _ScandirShim(object):
    """Full iterator *and* context manager (os.walk drives it with next(), pathlib with
    with/for)."""

    def __init__(self, entries):
        self._entries = entries
        self._pos = 0

    def __iter__(self):
        return self

    def __next__(self):
        if self._pos >= len(self._entries):
            raise StopIteration
        ent = self._entries[self._pos]
        self._pos += 1
        return ent

    def close(self):
        self._pos = len(self._entries)

    def __enter__(self):
        return self

    def __exit__(self, *exc):
        self.close()
        return False


@contextlib.contextmanager
def listing_order(rng, root, counter=None):
    """Directory listings below root come back in a seeded permutation."""
    root = os.path.realpath(root)

    def inside(path):
        try:
            real = os.path.realpath(os.fspath(path) if path is not None else ".")
        except TypeError:
            return False
        return real == root or real.startswith(root + os.sep)

    def perm(items, key):
        items = sorted(items, key=key)
        rng.shuffle(items)
        if counter is not None:
            counter["listings_permuted"] = counter.get("listings_permuted", 0) + 1
        return items

    def listdir(path="."):
        names = _REAL_LISTDIR(path)
        if inside(path):
            return perm(names, key=lambda n: n)
        return names

    def scandir(path="."):
        it = _REAL_SCANDIR(path)
        if not inside(path):
            return it
        with it:
            entries = list(it)
        return _ScandirShim(perm(entries, key=lambda e: e.name))

    os.listdir, os.scandir = listdir, scandir
    try:
        yield
    finally:
        os.listdir, os.scandir = _REAL_LISTDIR, _REAL_SCANDIR


class OpenFault(object):
    """Fail the k-th open-for-write below root with the given errno."""

    def __init__(self, root, k, err):
        self.root = os.path.realpath(root)
        self.k = k
        self.err = err
        self.count = 0
        self.fired = 0

    def __call__(self, file, mode="r", *args, **kwargs):
        if isinstance(file, (str, bytes, os.PathLike)) and any(c in mode for c in "wax+"):
            real = os.path.realpath(os.fspath(file))
            if real.startswith(self.root + os.sep):
                self.count += 1
                if self.count == self.k:
                    self.fired += 1
                    raise OSError(self.err, os.strerror(self.err), os.fspath(file))
        return _REAL_OPEN(file, mode, *args, **kwargs)


@contextlib.contextmanager
def failing_open(root, k, err=errno.ENOSPC):
    fault = OpenFault(root, k, err)
    builtins.open = fault
    try:
        yield fault
    finally:
        builtins.open = _REAL_OPEN
