"""Engine SESSION: an editing session as a simulated system (DESIGN.md 3.3)."""
import json

from . import seams, seeds
from .classify import classify
from .gen import Gen
from .monitors import Ctx, tree_structure
from .ops import Interp, Skip
from .universe import Universe, kind_of


CURRENT_CASE = None


class Result(object):
    def __init__(self, case):
        self.case = case
        self.log = []
        self.violation = None
        self.stats = {"steps": 0, "skipped": 0, "raised": 0, "quarantined": 0,
                      "abandoned_corrupt_universe": 0, "labels": {}, "refusals": {},
                      "ops": {}, "sim_time_s": 0}
        self.shapes = set()
        self.fault_shapes = set()
        self.extra = {}

    @property
    def digest(self):
        return seeds.digest(self.log)

    def count(self, table, key, n=1):
        tab = self.stats[table]
        tab[key] = tab.get(key, 0) + n


def jdump(obj):
    return json.dumps(obj, sort_keys=True, separators=(",", ":"), default=repr)


def shape_hash(snap):
    shape = []
    for rec in snap["objs"]:
        shape.append((rec.get("k"), rec.get("name", [None, None])[1] if rec.get("name") else None,
                      rec.get("parent"), tuple(rec.get("secs", ())), tuple(rec.get("props", ())),
                      len(rec.get("values", ()))))
    return seeds.H("shape", shape)


# labels that describe an ordinary pre-state, not a fault: not counted as 'fault fired'
BENIGN = {"id_valid", "ctor_with_parent", "is_child", "card_none", "to_none", "none_when_none",
          "untyped_property", "same_parent", "rename_own"}


def signature(monitor, op_name, labels):
    return "%s|%s|%s" % (monitor, op_name, ",".join(labels))


def swarm_config(profile, streams):
    """Per-run variation: length, fault share (a slice of runs is fault free)."""
    rng = streams.get("swarm")
    if rng.random() < profile.long_share:
        length = rng.randint(*profile.long_length)
    else:
        length = rng.randint(*profile.length)
    r = rng.random()
    if r < 0.1:
        fault_share = 0.0
    elif r < 0.3:
        fault_share = profile.fault_share / 2.0
    elif r < 0.85:
        fault_share = profile.fault_share
    else:
        fault_share = min(1.0, profile.fault_share * 1.6)
    cfg = {"length": length, "fault_share": fault_share}
    if getattr(profile, "wfilter_share", 0) and streams.get("wfilter").random() < profile.wfilter_share:
        cfg["wfilter"] = "error"
    return cfg


def run_session(prop, run_seed, profile, monitors, ops=None, known=None, own_tree=False,
                prelude=None, finale=None, config=None, leave_out=None, keep_snapshots=False):
    """One simulated run.  ops=None: generate (seeded, state-directed); otherwise replay
    the given op list.  Returns a Result whose case replays the run exactly."""
    streams = seeds.Streams(run_seed)
    cfg = config or swarm_config(profile, streams)
    case = {"format": 1, "engine": "session", "property": prop, "run_seed": run_seed,
            "profile": profile.name, "config": cfg, "ops": []}
    res = Result(case)
    global CURRENT_CASE
    CURRENT_CASE = case       # what the run has issued so far, for a watchdog that fires mid-run
    res.log.append(jdump({"run_seed": run_seed, "property": prop, "profile": profile.name}))
    clock = seams.SimClock()
    with seams.installed(streams, clock=clock) as env:
        U = Universe()
        interp = Interp(U, env)
        env.wfilter = cfg.get("wfilter")
        gen = None
        if ops is None:
            gen = Gen(U, streams.get("gen"), profile)
            gen.fault_share = cfg["fault_share"]
        mem = {}
        if prelude is not None:
            prelude(U, interp, env, mem)
        n_steps = cfg["length"] if ops is None else len(ops)
        for step in range(n_steps):
            op = gen.next() if ops is None else ops[step]
            case["ops"].append(op)
            try:
                args = interp.resolve_args(op)
            except Skip as exc:
                res.stats["skipped"] += 1
                res.log.append(jdump({"step": step, "op": op, "skip": str(exc)}))
                continue
            if leave_out is not None and step in leave_out:
                # differential replay: this step is left out (it edits a copy only)
                res.log.append(jdump({"step": step, "op": op, "left_out": True}))
                res.extra.setdefault("snapshots", []).append(None)
                continue
            env.fuel[0] = seams.FUEL
            try:
                labels = classify(op, args, U)
                if known is not None and known.quarantined(op["op"], labels):
                    res.stats["quarantined"] += 1
                    res.log.append(jdump({"step": step, "op": op, "quarantined": labels}))
                    continue
                pre = U.snapshot()
                try:
                    if cfg.get("wfilter") == "error":
                        # environment: the application runs with warnings turned into errors;
                        # only while the library's operation runs, not while the harness looks
                        import warnings as _w
                        with _w.catch_warnings():
                            _w.simplefilter("error")
                            outcome = interp.apply(op, args)
                    else:
                        outcome = interp.apply(op, args)
                except Skip as exc:
                    res.stats["skipped"] += 1
                    res.log.append(jdump({"step": step, "op": op, "skip": str(exc)}))
                    continue
            except seams.Runaway as exc:
                # the library keeps copying (links that lead into their own copies): no property
                # speaks about such documents; counted, and the steps before are already judged
                res.stats["abandoned_runaway"] = res.stats.get("abandoned_runaway", 0) + 1
                res.log.append(jdump({"step": step, "op": op, "abandoned": str(exc)}))
                break
            finally:
                env.fuel[0] = None
            U.rediscover()
            guard = tree_structure(U)
            if guard is not None and not own_tree and guard[0] != "tree.acyclic":
                # Broken membership / back pointers (C03's to report) cannot make the library or
                # the harness loop: the run goes on and this property's own monitors keep judging,
                # e.g. a refused remove that forgets the parent lets a later rename create a name
                # clash (C04).  Only a cyclic parent chain ends the run (it can hang traversals).
                res.stats["corrupt_universe_continued"] = res.stats.get("corrupt_universe_continued", 0) + 1
                guard = None
            post = U.snapshot() if guard is None or own_tree else None
            res.stats["steps"] += 1
            res.count("ops", op["op"])
            faults = [lab for lab in labels if lab not in BENIGN]
            for lab in labels:
                res.count("labels", lab)
            if outcome[0] == "exc":
                res.stats["raised"] += 1
                res.count("refusals", "%s|%s|%s" % (op["op"], ",".join(faults), outcome[1]))
            if post is not None:
                sh = shape_hash(post)
                res.shapes.add(sh)
                if faults or outcome[0] == "exc":
                    res.fault_shapes.add(seeds.H(sh, op["op"], faults, outcome[0]))
            res.log.append(jdump({
                "step": step, "op": op, "labels": labels,
                "outcome": [outcome[0], outcome[1]] if outcome[0] == "exc" else ["ret", outcome[1]],
                "state": seeds.H("snap", jdump(post).replace(env.sandbox, "$SANDBOX"))
                if post is not None else "corrupt"}))
            if keep_snapshots:
                res.extra.setdefault("snapshots", []).append(post)
                res.extra.setdefault("steps_info", []).append(
                    {"step": step, "op": op["op"], "outcome": outcome[0],
                     "arg_idx": sorted(set(i for i in (U.index(v) for v in args.values()
                                                       if kind_of(v) != "other") if i is not None)),
                     "new": (outcome[1] or {}).get("new") if outcome[0] == "ret" and
                     isinstance(outcome[1], dict) else None,
                     "again": (outcome[1] or {}).get("again") if outcome[0] == "ret" and
                     isinstance(outcome[1], dict) else None,
                     "n_pre": len(pre["objs"])})
            ctx = Ctx(op=op, args=args, labels=labels, outcome=outcome, pre=pre, post=post,
                      U=U, env=env, mem=mem, step=step)
            if guard is not None and not own_tree:
                # A corrupt tree is C03's to report, not ours: abandon, the steps before are
                # already judged.  Before that, a monitor may look at the op that caused it with
                # the part of its oracle that is safe on a broken tree (identity checks only):
                # a copy that shares objects with its original breaks the tree *and* C11.
                for mon in monitors:
                    on_corrupt = getattr(mon, "on_corrupt", None)
                    v = on_corrupt(ctx) if on_corrupt is not None else None
                    if v:
                        res.violation = {
                            "monitor": v[0], "message": v[1], "step": step, "op": op,
                            "labels": labels, "outcome": list(outcome[:2]) if outcome[0] == "exc"
                            else ["ret"], "signature": signature(v[0], op["op"], labels)}
                        res.log.append(jdump({"step": step, "violation": res.violation["signature"]}))
                        break
                if res.violation:
                    break
                res.stats["abandoned_corrupt_universe"] += 1
                res.log.append(jdump({"step": step, "abandoned": guard[0]}))
                break
            for mon in monitors:
                if guard is not None and getattr(mon, "needs_tree", False):
                    continue
                v = mon(ctx)
                if v:
                    res.violation = {
                        "monitor": v[0], "message": v[1], "step": step, "op": op,
                        "labels": labels, "outcome": list(outcome[:2]) if outcome[0] == "exc"
                        else ["ret"],
                        "signature": signature(v[0], op["op"], labels)}
                    res.log.append(jdump({"step": step, "violation": res.violation["signature"]}))
                    break
            if res.violation:
                break
        if finale is not None and res.violation is None and not res.stats["abandoned_corrupt_universe"] \
                and not res.stats.get("abandoned_runaway"):
            v = finale(U, interp, env, mem, res)
            if v:
                res.violation = {"monitor": v[0], "message": v[1], "step": len(case["ops"]),
                                 "op": {"op": "finale"}, "labels": [],
                                 "outcome": ["ret"],
                                 "signature": signature(v[0], "finale", [])}
        res.stats["sim_time_s"] = clock.elapsed
    return res
