"""One integer decides everything: named PRNG streams derived from a run seed."""
import hashlib
import random


def H(*parts):
    """64 bit hash of the parts (stable across processes and hash seeds)."""
    data = "\x1f".join(repr(p) for p in parts).encode("utf-8")
    return int.from_bytes(hashlib.sha256(data).digest()[:8], "big")


def run_seed(base, prop, tier, index):
    return H("run", int(base), prop, tier, int(index))


class Streams(object):
    """Independent random streams by name; adding a draw to one never shifts another."""

    def __init__(self, seed):
        self.seed = seed
        self._streams = {}

    def get(self, name):
        rng = self._streams.get(name)
        if rng is None:
            rng = random.Random(H("stream", self.seed, name))
            self._streams[name] = rng
        return rng

    def __getattr__(self, name):
        if name.startswith("_"):
            raise AttributeError(name)
        return self.get(name)


def digest(lines):
    sha = hashlib.sha256()
    for line in lines:
        sha.update(line.encode("utf-8"))
        sha.update(b"\n")
    return sha.hexdigest()
