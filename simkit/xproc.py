"""Helper run in a fresh interpreter: load a file, validate, print the issue multiset."""
import json
import sys


def issues_of(doc):
    from odml.validation import Validation
    out = []
    for err in Validation(doc).errors:
        vid = err.validation_id
        obj = err.obj
        try:
            path = obj.get_path()
        except Exception:
            path = "?"
        out.append([type(obj).__name__, getattr(obj, "id", None), path,
                    getattr(vid, "name", str(vid)), err.rank, err.msg])
    out.sort(key=repr)
    return out


def main():
    from . import boot  # noqa: F401
    import io
    import contextlib
    import warnings
    import odml
    path, backend = sys.argv[1], sys.argv[2]
    with contextlib.redirect_stdout(io.StringIO()), contextlib.redirect_stderr(io.StringIO()), \
            warnings.catch_warnings():
        warnings.simplefilter("ignore")
        doc = odml.load(path, backend)
        res = issues_of(doc)
    print("XPROC " + json.dumps(res))


if __name__ == "__main__":
    main()
