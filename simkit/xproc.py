"""Helper run in a fresh interpreter: load a file, validate, print the issue multiset.

Two modes: one-shot (`python -m simkit.xproc <path> <backend>`) and a server
(`python -m simkit.xproc --serve`) that answers one JSON request per line, so that
a worker can keep two other interpreters (with other hash seeds) alive and ask them
about every run instead of a small sample.  The server restores the import-time
validation registry before every request: what it answers is a function of the
request and the code, not of the requests before it.
"""
import json
import os
import subprocess
import sys


def issues_of(doc):
    from odml.validation import Validation
    out = []
    for err in Validation(doc).errors:
        vid = err.validation_id
        obj = err.obj
        try:
            path = obj.get_path()
        except Exception:
            path = "?"
        out.append([type(obj).__name__, getattr(obj, "id", None), path,
                    getattr(vid, "name", str(vid)), err.rank, err.msg])
    out.sort(key=repr)
    return out


def _answer(path, backend):
    import io
    import contextlib
    import warnings
    import odml
    with contextlib.redirect_stdout(io.StringIO()), contextlib.redirect_stderr(io.StringIO()), \
            warnings.catch_warnings():
        warnings.simplefilter("ignore")
        doc = odml.load(path, backend)
        return issues_of(doc)


def main():
    from . import boot  # noqa: F401
    if sys.argv[1:2] == ["--serve"]:
        from . import seams
        out = sys.stdout
        for line in sys.stdin:
            line = line.strip()
            if not line:
                continue
            req = json.loads(line)
            seams.fresh_validation_state()
            try:
                res = {"issues": _answer(req["path"], req["backend"])}
            except Exception as exc:      # reported to the asking worker, which decides
                res = {"error": "%s: %s" % (type(exc).__name__, str(exc)[:200])}
            out.write("XPROC " + json.dumps(res) + "\n")
            out.flush()
        return
    path, backend = sys.argv[1], sys.argv[2]
    print("XPROC " + json.dumps(_answer(path, backend)))


# ---- client side: two long-lived helpers per worker process ---------------------------------
_HELPERS = {}
HASHSEEDS = ("1", "987")


def helpers():
    """The pair of helper interpreters of this process (started on first use; they end when
    their stdin is closed, i.e. when this process exits)."""
    from .known import VERIF
    pid = os.getpid()
    pair = _HELPERS.get(pid)
    if pair is None or any(p.poll() is not None for p in pair):
        pair = []
        for hashseed in HASHSEEDS:
            env = dict(os.environ, PYTHONHASHSEED=hashseed)
            pair.append(subprocess.Popen([sys.executable, "-m", "simkit.xproc", "--serve"],
                                         cwd=VERIF, env=env, stdin=subprocess.PIPE,
                                         stdout=subprocess.PIPE, stderr=subprocess.DEVNULL,
                                         text=True, bufsize=1))
        _HELPERS.clear()
        _HELPERS[pid] = pair
        import atexit
        atexit.register(_shutdown, pid)
    return pair


def _shutdown(pid):
    if os.getpid() != pid:
        return
    for proc in _HELPERS.pop(pid, []):
        try:
            proc.stdin.close()
            proc.stdout.close()
            proc.wait(timeout=5)
        except Exception:
            proc.kill()


def ask(path, backend):
    """Issue collections the two other interpreters report for the file (list of two)."""
    outs = []
    for proc in helpers():
        proc.stdin.write(json.dumps({"path": path, "backend": backend}) + "\n")
        proc.stdin.flush()
        while True:
            line = proc.stdout.readline()
            if not line:
                raise RuntimeError("xproc helper ended unexpectedly")
            if line.startswith("XPROC "):
                outs.append(json.loads(line[6:]))
                break
    return outs


if __name__ == "__main__":
    main()
