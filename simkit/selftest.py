"""Self-tests of the machinery: determinism (same seed twice, fresh interpreters, different
hash seeds) and sensitivity (every mutant / seeded change must make its check fail)."""
import json
import os
import shutil
import subprocess
import sys
import time

from .known import VERIF

CLAIMED = ["C03", "C04", "C05", "C06", "C07", "C09", "C11", "C12", "C16", "C17", "C18", "C19"]


def determinism(args):
    props = [p.upper() for p in args.props] or CLAIMED
    n = args.n
    bad = 0
    report = {}
    for prop in props:
        idx = ",".join(str(i) for i in range(n))
        outs = []
        for hashseed in ("0", "4242"):
            env = dict(os.environ, PYTHONHASHSEED=hashseed)
            proc = subprocess.run([sys.executable, "-m", "simkit.cli", "digest", prop, "--tier",
                                   args.tier, "--indices", idx], cwd=VERIF, env=env,
                                  capture_output=True, text=True, timeout=1800)
            outs.append(sorted(l for l in proc.stdout.splitlines() if l.startswith("DIGEST ")))
        same = outs[0] == outs[1] and len(outs[0]) == n
        report[prop] = {"seeds": n, "equal": same}
        print("determinism %s: %d seeds, %s" % (prop, n, "equal" if same else "DIFFERENT"))
        if not same:
            bad += 1
            for a, b in zip(outs[0], outs[1]):
                if a != b:
                    print("   ", a, "|", b)
                    break
    with open(os.path.join(VERIF, "evidence", "selftest-determinism.json"), "w") as fobj:
        json.dump(report, fobj, indent=1, sort_keys=True)
    return 2 if bad else 0


def collect_mutants(props):
    out = []
    mdir = os.path.join(VERIF, "mutants")
    for name in sorted(os.listdir(mdir)) if os.path.isdir(mdir) else []:
        if name.endswith(".patch"):
            prop = name.split("-")[0]
            if not props or prop in props:
                out.append((prop, name[:-6], os.path.join(mdir, name)))
    sdir = os.path.join(VERIF, "seeded")
    for name in sorted(os.listdir(sdir)) if os.path.isdir(sdir) else []:
        meta = os.path.join(sdir, name, "meta.json")
        patch = os.path.join(sdir, name, "patch.diff")
        if os.path.exists(meta) and os.path.exists(patch):
            info = json.load(open(meta))
            # a change seeded for one property may sit in code another property's check owns
            # (the download cache belongs to C18): meta.json then names the check that judges it
            prop = info.get("checked_by") or info.get("property")
            if info.get("obsolete"):
                continue        # neutralised by a later repair of /repo, see its meta.json
            if not props or prop in props:
                out.append((prop, "seeded/" + name, patch))
    return out


def mutants(args):
    props = [p.upper() for p in args.props]
    rows = []
    missed = 0
    for prop, name, patch in collect_mutants(props):
        scratch = os.path.join("/dev/shm", "odml-mut-%d" % os.getpid())
        shutil.rmtree(scratch, ignore_errors=True)
        os.makedirs(scratch)
        try:
            shutil.copytree("/repo/odml", os.path.join(scratch, "odml"))
            proc = subprocess.run(["patch", "-p1", "-s", "-d", scratch, "-i", patch],
                                  capture_output=True, text=True)
            if proc.returncode != 0:
                rows.append({"property": prop, "mutant": name, "result": "does-not-apply"})
                print("mutant %-58s %s does not apply: %s" % (name, prop, proc.stdout.strip()[:100]))
                continue
            t0 = time.time()
            env = dict(os.environ, VERIF_REPO=scratch, PYTHONHASHSEED="0", VERIF_MAX_REPORTED="1",
                       VERIF_STOP_ON_FIRST="1")
            env.pop("VERIF_TIER", None)
            run = subprocess.run([sys.executable, "-m", "simkit.cli", "run", prop, "--tier", "quick"],
                                 cwd=VERIF, env=env, capture_output=True, text=True, timeout=1800)
            tier = "quick"
            if run.returncode == 0 and args.tier == "thorough":
                run = subprocess.run([sys.executable, "-m", "simkit.cli", "run", prop, "--tier",
                                      "thorough", "--budget", "180"], cwd=VERIF, env=env,
                                     capture_output=True, text=True, timeout=3600)
                tier = "thorough"
            sigs = sorted(set(l.split(" :: ")[0][len("violation: "):] for l in run.stdout.splitlines()
                              if l.startswith("violation: ")))
            caught = run.returncode == 1
            res = "caught" if caught else ("HARNESS-ERROR" if run.returncode == 2 else "MISSED")
            if not caught:
                missed += 1
            rows.append({"property": prop, "mutant": name, "result": res, "tier": tier,
                         "wall_s": round(time.time() - t0, 1), "signatures": sigs[:4]})
            print("mutant %-58s %s %s (%s, %.0fs) %s" % (name, prop, res, tier, time.time() - t0,
                                                          sigs[0] if sigs else ""))
        finally:
            shutil.rmtree(scratch, ignore_errors=True)
    # evidence of the unchanged tree is rewritten by the mutant runs: restore it is the caller's job
    out = os.path.join(VERIF, "evidence", "selftest-mutants.json")
    if props and os.path.exists(out):
        # a partial re-run replaces its own rows and keeps the others
        try:
            old = json.load(open(out)).get("rows", [])
        except ValueError:
            old = []
        mine = set(r["mutant"] for r in rows)
        rows = sorted([r for r in old if r["mutant"] not in mine and r["property"] not in props] + rows,
                      key=lambda r: (r["mutant"].startswith("seeded/"), r["mutant"]))
        missed = sum(1 for r in rows if r["result"] != "caught")
    with open(out, "w") as fobj:
        json.dump({"rows": rows, "missed": missed}, fobj, indent=1, sort_keys=True)
    print("%d mutants, %d not caught" % (len(rows), missed))
    return 1 if missed else 0


def main(args):
    if args.what == "determinism":
        return determinism(args)
    return mutants(args)
