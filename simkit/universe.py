"""The universe of a SESSION run: every odml object the run has seen, the
harness-held alias lists and the durable store; plus canonical snapshots taken
through the public getters only (what a user sees)."""
import datetime as _dt

from . import boot  # noqa: F401
import odml
from odml.doc import BaseDocument
from odml.section import BaseSection
from odml.property import BaseProperty

MAX_OBJECTS = 400
MAX_DEPTH = 400       # no chain without a cycle is longer than MAX_OBJECTS


def kind_of(obj):
    if isinstance(obj, BaseDocument):
        return "doc"
    if isinstance(obj, BaseSection):
        return "sec"
    if isinstance(obj, BaseProperty):
        return "prop"
    return "other"


def canon(val):
    """Canonical, JSON-able, type-preserving form of a value."""
    if val is None:
        return None
    if isinstance(val, bool):
        return ["bool", val]
    if isinstance(val, int):
        return ["int", val]
    if isinstance(val, float):
        return ["float", repr(val)]
    if isinstance(val, str):
        return [type(val).__name__, str(val)]
    if isinstance(val, _dt.datetime):
        return [type(val).__name__, val.isoformat()]
    if isinstance(val, _dt.date):
        return [type(val).__name__, val.isoformat()]
    if isinstance(val, _dt.time):
        return [type(val).__name__, val.isoformat()]
    if isinstance(val, (list, tuple)):
        return [type(val).__name__, [canon(v) for v in val]]
    return ["other", type(val).__name__, repr(val)]


class Universe(object):
    def __init__(self):
        self.objs = []      # creation-ordered registry
        self._idx = {}      # id(obj) -> index
        self.aliases = []   # python lists the harness holds on to
        self.files = []     # durable store: dicts {path, backend, doc}
        self.merges = []    # (dest index, source index) of Section merges that succeeded
        self.templates = None  # the run's TemplateHandler (created on first use)
        self.validations = []  # (Validation, object) pairs the harness keeps for a later re-run
        self.kept_card_vals = {}  # root index -> Validation kept by the cardinality monitor
        self.corrupt = None  # set by the structural guard

    # -- registry ---------------------------------------------------------
    def register(self, obj):
        key = id(obj)
        if key in self._idx:
            return self._idx[key]
        self._idx[key] = len(self.objs)
        self.objs.append(obj)
        return self._idx[key]

    def index(self, obj):
        return self._idx.get(id(obj))

    def of_kind(self, *kinds):
        return [o for o in self.objs if kind_of(o) in kinds]

    def forget_all(self):
        del self.objs[:]
        self._idx.clear()

    def rediscover(self):
        """Register everything reachable from the registered objects through
        .sections / .properties / .parent.  Bounded, so a broken tree cannot hang
        the walk."""
        queue = list(self.objs)
        seen = set(id(o) for o in queue)
        count = 0
        while queue and count < MAX_OBJECTS * 4:
            obj = queue.pop(0)
            count += 1
            knd = kind_of(obj)
            nxt = []
            if knd in ("doc", "sec"):
                nxt.extend(list(obj.sections))
            if knd == "sec":
                nxt.extend(list(obj.properties))
            if knd in ("sec", "prop"):
                par = obj.parent
                if par is not None:
                    nxt.append(par)
            for child in nxt:
                if kind_of(child) == "other":
                    continue
                if id(child) not in seen and len(self.objs) < MAX_OBJECTS:
                    seen.add(id(child))
                    self.register(child)
                    queue.append(child)

    # -- structure helpers (bounded) ---------------------------------------
    def top(self, obj):
        """Top of the parent chain (bounded walk)."""
        cur = obj
        for _ in range(MAX_DEPTH):
            par = None if kind_of(cur) == "doc" else cur.parent
            if par is None:
                return cur
            cur = par
        return cur

    def ancestors(self, obj):
        out = []
        cur = obj
        for _ in range(MAX_DEPTH):
            par = None if kind_of(cur) == "doc" else cur.parent
            if par is None or any(par is a for a in out):
                break
            out.append(par)
            cur = par
        return out

    def links_cyclic(self, doc):
        """True when the links stored in the document form a cycle: Section L links to T, below
        (or at) T sits another linking Section M, and following M's link leads back to L.  The
        fully resolved document is then infinite and Document.finalize descends into its own
        copies without end (observed: 11 Sections, 27 s, RecursionError).  No property covers such
        documents (C12 excludes nested links), so the harness does not issue finalize on them.
        A link whose target is the linking Section itself or one of its ancestors is refused by
        the library at once and does not count."""
        secs = [o for o in self.subtree(doc) if kind_of(o) == "sec"]
        linkers = []
        for sec in secs:
            try:
                path = sec.link
                target = sec.get_section_by_path(path) if path is not None else None
            except Exception:
                target = None
            if kind_of(target) == "sec":
                linkers.append((sec, target))
        if len(linkers) < 2:
            return False
        edges = {}
        for sec, target in linkers:
            if target is sec or any(target is a for a in self.ancestors(sec)):
                continue    # refused by merge_check: resolving stops there
            out = []
            for other, _ in linkers:
                if other is sec:
                    continue
                if other is target or any(target is a for a in self.ancestors(other)):
                    out.append(id(other))
            edges[id(sec)] = out
        state = {}

        def visit(node):
            state[node] = 1
            for nxt in edges.get(node, ()):
                if state.get(nxt) == 1 or (state.get(nxt) is None and visit(nxt)):
                    return True
            state[node] = 2
            return False
        return any(state.get(n) is None and visit(n) for n in list(edges))

    def subtree(self, obj):
        """All objects below obj (obj included), bounded, identity-deduplicated."""
        out = [obj]
        seen = {id(obj)}
        i = 0
        while i < len(out) and len(out) < MAX_OBJECTS:
            cur = out[i]
            i += 1
            knd = kind_of(cur)
            kids = []
            if knd in ("doc", "sec"):
                kids.extend(list(cur.sections))
            if knd == "sec":
                kids.extend(list(cur.properties))
            for k in kids:
                if id(k) not in seen:
                    seen.add(id(k))
                    out.append(k)
        return out

    def roots(self):
        out = []
        seen = set()
        for o in self.objs:
            t = self.top(o)
            if id(t) not in seen:
                seen.add(id(t))
                out.append(t)
        return out

    # -- snapshot -----------------------------------------------------------
    def ref(self, obj):
        if obj is None:
            return None
        i = self.index(obj)
        return -1 if i is None else i

    def record(self, obj):
        knd = kind_of(obj)
        if knd == "doc":
            return {
                "k": "doc", "id": obj.id, "author": canon(obj.author),
                "date": canon(obj.date), "version": canon(obj.version),
                "repository": canon(obj.repository),
                "secs": [self.ref(s) for s in obj.sections],
            }
        if knd == "sec":
            return {
                "k": "sec", "id": obj.id, "name": canon(obj.name), "type": canon(obj.type),
                "definition": canon(obj.definition), "reference": canon(obj.reference),
                "repository": canon(obj.repository), "link": canon(obj.link),
                "include": canon(obj.include),
                "sec_card": canon(obj.sec_cardinality),
                "prop_card": canon(obj.prop_cardinality),
                "merged": bool(obj.is_merged),
                "parent": self.ref(obj.parent),
                "secs": [self.ref(s) for s in obj.sections],
                "props": [self.ref(p) for p in obj.properties],
            }
        if knd == "prop":
            return {
                "k": "prop", "id": obj.id, "name": canon(obj.name), "dtype": canon(obj.dtype),
                "values": [canon(v) for v in obj.values],
                "unit": canon(obj.unit), "uncertainty": canon(obj.uncertainty),
                "definition": canon(obj.definition), "reference": canon(obj.reference),
                "value_origin": canon(obj.value_origin),
                "dependency": canon(obj.dependency),
                "dependency_value": canon(obj.dependency_value),
                "val_card": canon(obj.val_cardinality),
                "parent": self.ref(obj.parent),
            }
        return {"k": "other"}

    def snapshot(self):
        """Canonical state of the whole universe: list of records (by registry
        index) plus the contents of every alias list."""
        return {
            "objs": [self.record(o) for o in self.objs],
            "aliases": [canon(a) for a in self.aliases],
        }


def diff_snapshots(pre, post, only=None, limit=6):
    """Human-readable differences between two snapshots (registry may have grown)."""
    out = []
    a, b = pre["objs"], post["objs"]
    for i in range(min(len(a), len(b))):
        if only is not None and i not in only:
            continue
        if a[i] != b[i]:
            for key in sorted(set(a[i]) | set(b[i])):
                if a[i].get(key) != b[i].get(key):
                    out.append("obj#%d(%s).%s: %r -> %r" % (i, a[i].get("k"), key,
                                                             a[i].get(key), b[i].get(key)))
    if only is None:
        for i in range(min(len(pre["aliases"]), len(post["aliases"]))):
            if pre["aliases"][i] != post["aliases"][i]:
                out.append("alias#%d: %r -> %r" % (i, pre["aliases"][i], post["aliases"][i]))
    return out[:limit]


def content_record(rec):
    """Record without identity (ids, parent/child indices) - for 'equal modulo ids'."""
    out = dict(rec)
    for key in ("id", "parent", "secs", "props"):
        out.pop(key, None)
    return out
