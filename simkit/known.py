"""Known-findings file (/verif/known-findings.txt): read only, never written at run time.

Lines:
  known: property=<id> sig=<signature> replay=<path relative to /verif> :: <what fails>
  fixed: property=<id> <commit> <what failed>
A 'known' entry quarantines ops whose (op kind, labels) match its signature and
turns a violation with exactly that signature into a KNOWN-FINDING line.  A
'fixed' entry suppresses nothing.
"""
import os

VERIF = os.path.dirname(os.path.dirname(os.path.abspath(__file__)))
PATH = os.path.join(VERIF, "known-findings.txt")


class Known(object):
    def __init__(self, prop, path=PATH):
        self.prop = prop
        self.entries = []   # dicts: sig, replay, text, monitor, op, labels
        self.fixed = []
        if os.path.exists(path):
            with open(path) as fobj:
                for line in fobj:
                    line = line.strip()
                    if not line or line.startswith("#"):
                        continue
                    if line.startswith("known:"):
                        ent = self._parse(line[len("known:"):].strip())
                        if ent and ent["property"] == prop:
                            self.entries.append(ent)
                    elif line.startswith("fixed:"):
                        rest = line[len("fixed:"):].strip()
                        if ("property=%s " % prop) in rest + " ":
                            self.fixed.append(rest)

    @staticmethod
    def _parse(rest):
        head, _, text = rest.partition("::")
        ent = {"text": text.strip()}
        for tok in head.split():
            if "=" in tok:
                key, _, val = tok.partition("=")
                ent[key] = val
        if "property" not in ent or "sig" not in ent:
            return None
        parts = ent["sig"].split("|")
        ent["monitor"] = parts[0]
        ent["op"] = parts[1] if len(parts) > 1 else ""
        ent["labels"] = [p for p in (parts[2].split(",") if len(parts) > 2 else []) if p]
        ent["quarantine"] = ent.get("quarantine", "yes") != "no"
        return ent

    def signatures(self):
        return set(e["sig"] for e in self.entries)

    def is_known(self, signature):
        return signature in self.signatures()

    def quarantined(self, op_name, labels):
        """Do not execute an op that would re-trigger a known finding: it would
        corrupt the universe and every later step would re-report it."""
        for ent in self.entries:
            if not ent["quarantine"]:
                continue
            if ent["op"] == op_name and set(ent["labels"]) == set(labels):
                return True
        return False
