"""Command line: vcheck run <id> --tier quick|thorough | replay <file> | digest ... | selftest ..."""
import argparse
import json
import os
import sys


def main(argv=None):
    par = argparse.ArgumentParser(prog="vcheck")
    sub = par.add_subparsers(dest="cmd", required=True)
    p_run = sub.add_parser("run")
    p_run.add_argument("prop")
    p_run.add_argument("--tier", default="quick", choices=["quick", "thorough"])
    p_run.add_argument("--runs", type=int, default=0)
    p_run.add_argument("--budget", type=int, default=0)
    p_rep = sub.add_parser("replay")
    p_rep.add_argument("path")
    p_rep.add_argument("--json", action="store_true")
    p_dig = sub.add_parser("digest")
    p_dig.add_argument("prop")
    p_dig.add_argument("--tier", default="quick")
    p_dig.add_argument("--indices", default="0,1,2")
    p_self = sub.add_parser("selftest")
    p_self.add_argument("what", choices=["determinism", "mutants", "seeded"])
    p_self.add_argument("props", nargs="*")
    p_self.add_argument("--n", type=int, default=40)
    p_self.add_argument("--tier", default="quick")
    args = par.parse_args(argv)

    from . import runner, seeds
    from .known import Known
    base = int(os.environ.get("VERIF_SEED", "0") or 0)

    if args.cmd == "run":
        tier = os.environ.get("VERIF_TIER") or args.tier
        budget = int(os.environ.get("VERIF_BUDGET_S", "0") or 0) or args.budget
        return runner.run_check(args.prop.upper(), tier, base, budget=budget or None,
                                runs=args.runs or None)

    if args.cmd == "replay":
        try:
            case, res = runner.replay_file(args.path, known=None)
        except runner.RunTimeout:
            # a replay that does not return: reproduces a recorded timeout, anything else is news
            with open(args.path) as fobj:
                case = json.load(fobj)
            sig = "%s|timeout|" % runner.TERMINATION_PROPS.get(case["property"], "run.returns")
            if args.json:
                print("REPLAY-RESULT " + json.dumps({"signature": sig, "digest": "timeout"}))
                return 0
            print("replay %s: property=%s did not return within %d s" %
                  (args.path, case["property"], runner.RUN_TIMEOUT))
            print("violation: %s :: the run did not return" % sig)
            print("VIOLATION property=%s replay=%s" % (case["property"], args.path))
            return 1
        sig = res.violation["signature"] if res.violation else None
        if args.json:
            print("REPLAY-RESULT " + json.dumps({"signature": sig, "digest": res.digest}))
            return 0
        print("replay %s: property=%s digest=%s" % (args.path, case["property"], res.digest))
        for line in res.log:
            print("  " + line[:300])
        if res.violation:
            print("violation: %s :: %s" % (sig, res.violation["message"]))
            known = Known(case["property"])
            if known.is_known(sig):
                print("KNOWN-FINDING: property=%s [sig=%s]" % (case["property"], sig))
                return 0
            print("VIOLATION property=%s replay=%s" % (case["property"], args.path))
            return 1
        for obs in sorted((res.stats.get("extended_observations") or {})):
            # THREADS, extended mode: a disagreement at a finer granularity than the property's
            # quantifier - recorded, never an alarm
            print("observation (extended mode, not an alarm): %s" % obs)
        print("no violation")
        return 0

    if args.cmd == "digest":
        mod = runner.load_check(args.prop.upper())
        known = Known(args.prop.upper())
        for tok in args.indices.split(","):
            i = int(tok)
            rs = seeds.run_seed(base, args.prop.upper(), args.tier, i)
            res = runner.guarded(mod.explore, rs, args.tier, known)
            print("DIGEST %d %s" % (i, res.digest))
        return 0

    if args.cmd == "selftest":
        from . import selftest
        return selftest.main(args)
    return 2


if __name__ == "__main__":
    sys.exit(main())
