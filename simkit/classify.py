"""Classifier: labels an op with the pre-state conditions that hold for it.

Labels are what actually happened, not what the generator intended.  They are
counted in the evidence ('fault kind fired') and form the violation signature.
"""
from . import boot  # noqa: F401
from odml import dtypes as _dtypes
from .universe import kind_of


def _name_in(container, kind, name, skip=None):
    lst = container.sections if kind == "sec" else (
        container.properties if kind_of(container) == "sec" else [])
    for child in lst:
        if child is skip:
            continue
        if child.name == name:
            return True
    return False


def _is(seq, obj):
    return any(o is obj for o in seq)


def attach_labels(U, t, x, labels, prefix=""):
    """Pre-state conditions of attaching x to t."""
    kt, kx = kind_of(t), kind_of(x)
    if kt not in ("doc", "sec"):
        labels.add(prefix + "dest_not_container")
        return
    if kx == "other" or kx == "doc" or (kx == "prop" and kt == "doc"):
        if isinstance(x, (list, tuple)):
            labels.add(prefix + "iterable_arg")
        else:
            labels.add(prefix + "wrong_type")
        return
    if _name_in(t, kx, x.name, skip=x):
        labels.add(prefix + "dest_has_same_name")
    par = x.parent
    if par is t:
        labels.add(prefix + "obj_attached_here")
    elif par is not None:
        labels.add(prefix + "obj_attached_elsewhere")
    if kx == "sec" and (x is t or _is(U.ancestors(t), x)):
        labels.add(prefix + "dest_in_subtree")


def classify(op, a, U):
    name = op["op"]
    labels = set()
    try:
        _classify(name, op, a, U, labels)
    except Exception as exc:  # classifier must never stop a run
        labels.add("classifier_error:%s" % type(exc).__name__)
    return sorted(labels)


def _card_labels(v, labels):
    if v is None:
        labels.add("card_none")
        return
    if isinstance(v, bool):
        labels.add("card_bool")
    elif isinstance(v, int):
        if v < 0:
            labels.add("card_negative")
        elif v == 0:
            labels.add("card_resets")
    elif isinstance(v, float):
        labels.add("card_float")
    elif isinstance(v, str):
        labels.add("card_string")
    elif isinstance(v, (tuple, list)):
        if len(v) != 2:
            labels.add("card_wrong_length")
        else:
            lo, hi = v
            for e in (lo, hi):
                if isinstance(e, bool) or not (e is None or isinstance(e, int)):
                    labels.add("card_non_int")
                elif isinstance(e, int) and e < 0:
                    labels.add("card_negative")
            if isinstance(lo, int) and isinstance(hi, int) and lo > hi >= 0:
                labels.add("card_min_gt_max")
            if not lo and not hi:
                labels.add("card_resets")
    else:
        labels.add("card_non_int")


def _oid_labels(oid, labels):
    import uuid
    if oid is None:
        return
    try:
        canon = str(uuid.UUID(oid))
    except (ValueError, AttributeError, TypeError):
        labels.add("id_malformed")
        return
    if canon != oid:
        labels.add("id_noncanonical_valid")
    else:
        labels.add("id_valid")


def _value_labels(prop, v, labels, strict=None):
    dtype = prop.dtype if prop is not None else None
    if v is None or (isinstance(v, (list, tuple, str)) and len(v) == 0):
        labels.add("empty_input")
        return
    if isinstance(v, str):
        if v.startswith("[") and v.endswith("]"):
            labels.add("bracket_string")
        if v.startswith("("):
            labels.add("tuple_syntax")
    items = list(v) if isinstance(v, (list, tuple)) else [v]
    if len(set(type(i).__name__ for i in items)) > 1:
        labels.add("mixed_list")
    if any(i == "" for i in items if isinstance(i, str)):
        labels.add("empty_item")
        if dtype in ("date", "time", "datetime"):
            labels.add("empty_text_means_now")
    if dtype is not None:
        bad = False
        for i in items:
            try:
                _dtypes.get(i, dtype)
            except Exception:
                bad = True
        if bad:
            labels.add("unconvertible")
        if strict and items and _dtypes.infer_dtype(items[0]) != dtype:
            labels.add("strict_mismatch")
    else:
        labels.add("untyped_property")


def _classify(name, op, a, U, labels):
    if name in ("new_doc", "new_sec", "new_prop", "create_section", "create_property"):
        _oid_labels(a.get("oid"), labels)
        if name in ("new_sec", "new_prop") and a.get("parent") is not None:
            par = a["parent"]
            kx = "sec" if name == "new_sec" else "prop"
            nm = a.get("name")
            if kind_of(par) not in ("doc", "sec") or (kx == "prop" and kind_of(par) != "sec"):
                labels.add("ctor_parent_wrong_type")
            elif nm and _name_in(par, kx, nm):
                labels.add("ctor_parent_clash")
            else:
                labels.add("ctor_with_parent")
        if name in ("create_section", "create_property"):
            kx = "sec" if name == "create_section" else "prop"
            if a.get("name") and kind_of(a["t"]) in ("doc", "sec") and \
                    _name_in(a["t"], kx, a["name"]):
                labels.add("ctor_parent_clash")
        for key in ("sec_card", "prop_card", "val_card"):
            if a.get(key) is not None:
                sub = set()
                _card_labels(a[key], sub)
                if sub & {"card_negative", "card_float", "card_string", "card_wrong_length",
                          "card_non_int", "card_min_gt_max"}:
                    labels.add("ctor_bad_cardinality")
        if name in ("new_prop", "create_property"):
            dt = a.get("dtype")
            if dt is not None and not _dtypes.valid_type(dt):
                labels.add("ctor_unknown_dtype")
            if a.get("values") is not None:
                class _P(object):
                    dtype = dt if _dtypes.valid_type(dt) else None
                sub = set()
                _value_labels(_P, a["values"], sub)
                if "unconvertible" in sub or "mixed_list" in sub:
                    labels.add("ctor_bad_values")
        if name == "new_doc" and a.get("date") is not None:
            try:
                _dtypes.date_set(a["date"])
            except Exception:
                labels.add("doc_invalid_date")
        return

    if name in ("append", "insert"):
        attach_labels(U, a["t"], a["x"], labels)
        return

    if name == "extend":
        t, xs = a["t"], a["xs"]
        if not isinstance(xs, (list, tuple)):
            labels.add("not_iterable")
            return
        seen = []
        for x in xs:
            sub = set()
            attach_labels(U, t, x, sub)
            for lab in sub:
                labels.add("arg_contains_" + lab)
            if _is(seen, x):
                labels.add("dup_in_argument")
            elif kind_of(x) in ("sec", "prop") and any(
                    kind_of(s) == kind_of(x) and s.name == x.name for s in seen):
                labels.add("dup_name_in_argument")
            seen.append(x)
        return

    if name == "extend_raw":
        labels.add("not_iterable")
        return

    if name == "remove":
        t, x = a["t"], a["x"]
        if kind_of(t) not in ("doc", "sec"):
            labels.add("dest_not_container")
        elif kind_of(x) in ("sec", "prop") and x.parent is t:
            labels.add("is_child")
        else:
            labels.add("not_a_child")
        return

    if name == "set_parent":
        x, p = a["x"], a["p"]
        if kind_of(x) not in ("sec", "prop"):
            labels.add("wrong_type")
            return
        if p is None:
            labels.add("to_none" if x.parent is not None else "none_when_none")
            return
        if p is x.parent:
            labels.add("same_parent")
        attach_labels(U, p, x, labels)
        labels.discard("obj_attached_here")
        return

    if name == "setitem":
        t, x, i = a["t"], a["x"], a["i"]
        if kind_of(t) not in ("doc", "sec"):
            labels.add("dest_not_container")
            return
        which = a["which"]
        if which == "properties" and kind_of(t) != "sec":
            labels.add("dest_not_container")
            return
        lst = t.sections if which == "sections" else t.properties
        want = "sec" if which == "sections" else "prop"
        if not -len(lst) <= i < len(lst):
            labels.add("index_out_of_range")
            return
        if kind_of(x) != want:
            labels.add("wrong_type")
            return
        cur = lst[i]
        if cur is x:
            labels.add("slot_same_object")
        elif _is(lst, x):
            labels.add("value_in_same_list_other_slot")
        if any(c is not cur and c is not x and c.name == x.name for c in lst):
            labels.add("clash_with_other_sibling")
        par = x.parent
        if par is not None and par is not t:
            labels.add("obj_attached_elsewhere")
        if want == "sec" and (x is t or _is(U.ancestors(t), x)):
            labels.add("dest_in_subtree")
        return

    if name == "reorder":
        x = a["x"]
        if kind_of(x) not in ("sec", "prop") or x.parent is None:
            labels.add("no_parent")
        return

    if name == "rename":
        x, nm = a["x"], a["name"]
        if not nm:
            labels.add("rename_empty")
        elif kind_of(x) in ("sec", "prop"):
            if nm == x.name:
                labels.add("rename_own")
            elif x.parent is not None and _name_in(x.parent, kind_of(x), nm, skip=x):
                labels.add("rename_sibling")
        return

    if name == "new_id":
        _oid_labels(a.get("oid"), labels)
        return

    if name in ("set_values", "v_append", "v_extend", "v_insert", "v_setitem"):
        x = a["x"]
        if kind_of(x) != "prop":
            labels.add("wrong_type")
            return
        _value_labels(x, a["v"], labels, strict=a.get("strict", name != "set_values" and
                                                      name != "v_setitem"))
        if name in ("v_insert", "v_setitem"):
            i = a["i"]
            if not 0 <= i <= len(x.values) - (1 if name == "v_setitem" else 0):
                labels.add("value_index_out_of_range")
        return

    if name == "v_extend_prop":
        x, y = a["x"], a["y"]
        if kind_of(x) == "prop" and kind_of(y) == "prop":
            if x.unit != y.unit:
                labels.add("extend_property_unit_mismatch")
            sub = set()
            _value_labels(x, y.values, sub, strict=True)
            labels.update(sub - {"empty_input"})
        return

    if name == "set_dtype":
        x, v = a["x"], a["v"]
        if not _dtypes.valid_type(v):
            labels.add("dtype_unknown")
        elif kind_of(x) == "prop" and v is not None:
            for val in x.values:
                try:
                    _dtypes.get(val, v)
                except Exception:
                    labels.add("dtype_inconvertible")
                    break
        return

    if name == "set_card":
        _card_labels(a["v"], labels)
        return
    if name == "set_card2":
        _card_labels((a.get("lo"), a.get("hi")), labels)
        return

    if name == "merge":
        t, x = a["t"], a["x"]
        if kind_of(t) != kind_of(x):
            labels.add("wrong_type")
            return
        if t is x:
            labels.add("src_is_dest")
        elif _is(U.ancestors(t), x):
            labels.add("dest_inside_src")
        elif _is(U.ancestors(x), t):
            labels.add("src_inside_dest")
        if kind_of(t) == "sec":
            _merge_labels(U, t, x, a.get("strict", True), labels, 0)
        elif kind_of(t) == "prop":
            _prop_merge_labels(t, x, a.get("strict", True), labels, 0, 0)
        return

    if name == "finalize":
        d = a.get("d")
        if kind_of(d) != "doc":
            labels.add("wrong_type")
            return
        if U.links_cyclic(d):
            labels.add("link_cycle")    # the op is skipped
            return
        # what will finalize do?  Asked of the library itself, on a twin of the document: links that
        # resolve against the pre-state may stop doing so once earlier ones are resolved.
        if any(sec.include is not None for sec in U.subtree(d) if kind_of(sec) == "sec"):
            labels.add("has_include")
        try:
            twin = d.clone(keep_id=True)
            def look(doc):
                # identities included: a link that is resolved again gets new copies
                # ... and is merged with another Section object than before
                return [(id(s_), s_.is_merged, id(s_.get_merged_equivalent()),
                         repr(s_.link), repr(s_.include), repr(s_.definition),
                         repr(s_.reference), [id(c) for c in s_.sections],
                         [(id(c), repr(c.values), repr(c.dtype), repr(c.unit), repr(c.definition))
                          for c in s_.properties]) for s_ in doc.itersections(recursive=True)]
            before = look(twin)
            try:
                twin.finalize()
            except Exception:
                labels.add("finalize_fails_half_way" if look(twin) != before
                           else "finalize_fails_at_once")
        except Exception:
            labels.add("finalize_unpredictable")
        return

    if name == "set_link":
        x, path = a["x"], a["path"]
        if kind_of(x) != "sec":
            labels.add("wrong_type")
            return
        if x.include is not None:
            labels.add("link_and_include")
        if x.parent is None:
            labels.add("link_on_detached")
        elif path:
            try:
                tgt = x.get_section_by_path(path)
                if tgt is x or _is(U.ancestors(x), tgt) or _is(U.ancestors(tgt), x):
                    labels.add("target_is_relative_of_linker")
            except Exception:
                labels.add("link_unresolvable")
        return

    if name == "set_include":
        x = a["x"]
        if kind_of(x) == "sec" and x.link is not None:
            labels.add("link_and_include")
        if kind_of(x) == "sec" and x.parent is None:
            labels.add("include_on_detached")
        labels.update(op.get("labels", []))
        return

    labels.update(op.get("labels", []))


def _merge_labels(U, dest, src, strict, labels, depth):
    if depth > 6:
        return
    if strict:
        for attr in ("definition", "reference"):
            dv, sv = getattr(dest, attr), getattr(src, attr)
            if dv is not None and sv is not None and \
                    "".join(dv.split()).lower() != "".join(sv.split()).lower():
                labels.add("conflict_%s@depth=%d" % (attr, depth))
    for pos, child in enumerate(list(src.sections)):
        mine = None
        for c in dest.sections:
            if c.name == child.name:
                mine = c
                if c.type == child.type:
                    break
        if mine is not None:
            if mine.type != child.type:
                labels.add("same_name_other_type_child@depth=%d" % depth)
            else:
                _merge_labels(U, mine, child, strict, labels, depth + 1)
    for pos, child in enumerate(list(src.properties)):
        for c in dest.properties:
            if c.name == child.name:
                _prop_merge_labels(c, child, strict, labels, depth + 1, pos)


def _prop_merge_labels(dest, src, strict, labels, depth, pos):
    for val in src.values:
        try:
            _dtypes.get(val, dest.dtype)
        except Exception:
            labels.add("unconvertible_values@depth=%d" % depth)
            break
    if not strict:
        return
    for attr in ("dtype", "unit", "uncertainty", "definition", "reference", "value_origin"):
        dv, sv = getattr(dest, attr), getattr(src, attr)
        if dv is None or sv is None:
            continue
        if attr in ("definition", "reference", "value_origin"):
            dv, sv = "".join(str(dv).split()).lower(), "".join(str(sv).split()).lower()
        if dv != sv:
            labels.add("conflict_%s@depth=%d" % (attr, depth))
