"""Minimisation of failing cases: ddmin over the op / fault list, then per-op
simplification.  A candidate is accepted only if it fails with the same
signature, so shrinking cannot slide from one bug into another."""
import copy


def ddmin(items, fails, max_tests=400):
    """Classic delta debugging; fails(list) -> bool.  Returns a 1-minimal-ish list."""
    tests = [0]

    def test(cand):
        tests[0] += 1
        return fails(cand)

    n = 2
    items = list(items)
    while len(items) >= 2 and tests[0] < max_tests:
        chunk = max(1, len(items) // n)
        subsets = [items[i:i + chunk] for i in range(0, len(items), chunk)]
        reduced = False
        for i in range(len(subsets)):
            complement = [x for j, s in enumerate(subsets) if j != i for x in s]
            if complement and test(complement):
                items = complement
                n = max(n - 1, 2)
                reduced = True
                break
        if not reduced:
            if n >= len(items):
                break
            n = min(len(items), n * 2)
    # final single-element pass
    i = 0
    while i < len(items) and len(items) > 1 and tests[0] < max_tests:
        cand = items[:i] + items[i + 1:]
        if test(cand):
            items = cand
        else:
            i += 1
    return items


OPTIONAL_KEYS = ("oid", "definition", "reference", "repository", "sec_card", "prop_card",
                 "val_card", "unit", "uncertainty", "author", "date", "version", "dtype",
                 "values", "type", "link", "include", "strict", "children", "keep_id",
                 "dependency", "dependency_value", "value_origin", "parent")

SIMPLER = [
    ("op", "insert", "append"),
]


def simplify_ops(ops, fails, max_tests=300):
    """Drop optional arguments and prefer simpler variants while the failure persists."""
    tests = [0]
    ops = copy.deepcopy(ops)
    for idx in range(len(ops)):
        for key in OPTIONAL_KEYS:
            if tests[0] >= max_tests:
                return ops
            if key in ops[idx]:
                cand = copy.deepcopy(ops)
                del cand[idx][key]
                tests[0] += 1
                if fails(cand):
                    ops = cand
        if ops[idx].get("op") == "insert":
            cand = copy.deepcopy(ops)
            cand[idx]["op"] = "append"
            cand[idx].pop("i", None)
            tests[0] += 1
            if fails(cand):
                ops = cand
        if ops[idx].get("op") == "extend" and len(ops[idx].get("xs", [])) > 1:
            for k in range(len(ops[idx]["xs"]) - 1, -1, -1):
                cand = copy.deepcopy(ops)
                del cand[idx]["xs"][k]
                tests[0] += 1
                if cand[idx]["xs"] and fails(cand):
                    ops = cand
        v = ops[idx].get("v")
        if isinstance(v, dict) and ("list" in v or "tuple" in v):
            key = "list" if "list" in v else "tuple"
            for k in range(len(v[key]) - 1, -1, -1):
                cand = copy.deepcopy(ops)
                if len(cand[idx]["v"][key]) > 1:
                    del cand[idx]["v"][key][k]
                    tests[0] += 1
                    if fails(cand):
                        ops = cand
    return ops


def shrink_case(case, execute, signature, list_keys=("ops",)):
    """Generic case shrinker: case[key] lists are minimised with ddmin under
    'execute(case) fails with the same signature'."""
    best = copy.deepcopy(case)

    def fails_with(key):
        def fails(items):
            cand = copy.deepcopy(best)
            cand[key] = items
            try:
                res = execute(cand)
            except Exception:
                return False
            return res.violation is not None and res.violation["signature"] == signature
        return fails

    for key in list_keys:
        if key not in best or not isinstance(best[key], list):
            continue
        # 1. truncate after the failing step
        res = execute(best)
        if res.violation is not None and res.violation["signature"] == signature:
            step = res.violation.get("step")
            if isinstance(step, int) and key == "ops" and step + 1 < len(best[key]):
                cand = best[key][:step + 1]
                if fails_with(key)(cand):
                    best[key] = cand
        best[key] = ddmin(best[key], fails_with(key))
        if key == "ops":
            best[key] = simplify_ops(best[key], fails_with(key))
    return best
