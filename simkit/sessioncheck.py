"""Glue for SESSION-engine checks: explore (generate + run) and execute (replay a case)."""
from .session import run_session

COMPONENTS = {
    "real": ["odml.base", "odml.section", "odml.property", "odml.doc", "odml.dtypes",
             "odml.validation", "odml.util", "odml.tools.xmlparser", "odml.tools.dict_parser",
             "odml.tools.odmlparser", "lxml", "PyYAML", "json", "tmpfs file system"],
    "stub": ["uuid.uuid4 (seeded generator of v4 UUIDs)", "wall clock (SimClock)",
             "loader thread scheduling (run-to-completion inside start())"],
}


def make(profiles, monitors, prop, own_tree=False, prelude=None, finale=None, differential=None):
    """profiles: dict name -> Profile (the first is the default, chosen per run by stream swarm)."""
    names = sorted(profiles)

    def explore(run_seed, tier, known=None):
        from . import seeds
        pick = seeds.Streams(run_seed).get("profile").randrange(len(names))
        prof = profiles[names[pick]]
        res = run_session(prop, run_seed, prof, monitors, known=known, own_tree=own_tree,
                          prelude=prelude, finale=finale, keep_snapshots=differential is not None)
        if differential is not None and res.violation is None:
            differential(res, lambda case, leave_out: run_session(
                prop, case["run_seed"], prof, [], ops=case["ops"], own_tree=own_tree,
                prelude=prelude, config=case.get("config"), leave_out=leave_out,
                keep_snapshots=True))
        return res

    def execute(case, known=None):
        prof = profiles[case["profile"]]
        res = run_session(prop, case["run_seed"], prof, monitors, ops=case["ops"], known=known,
                          own_tree=own_tree, prelude=prelude, finale=finale,
                          config=case.get("config"), keep_snapshots=differential is not None)
        if differential is not None and res.violation is None:
            differential(res, lambda c, leave_out: run_session(
                prop, c["run_seed"], prof, [], ops=c["ops"], own_tree=own_tree,
                prelude=prelude, config=c.get("config"), leave_out=leave_out,
                keep_snapshots=True))
        return res

    return explore, execute
