"""Glue for SESSION-engine checks: explore (generate + run) and execute (replay a case)."""
from .session import run_session

COMPONENTS = {
    "real": ["odml.base", "odml.section", "odml.property", "odml.doc", "odml.dtypes",
             "odml.validation", "odml.util", "odml.tools.xmlparser", "odml.tools.dict_parser",
             "odml.tools.odmlparser", "lxml", "PyYAML", "json", "tmpfs file system"],
    "stub": ["uuid.uuid4 (seeded generator of v4 UUIDs)", "wall clock (SimClock)",
             "loader thread scheduling (run-to-completion inside start())"],
}


def make(profiles, monitors, prop, own_tree=False, prelude=None, finale=None):
    """profiles: dict name -> Profile (the first is the default, chosen per run by stream swarm)."""
    names = sorted(profiles)

    def explore(run_seed, tier, known=None):
        from . import seeds
        pick = seeds.Streams(run_seed).get("profile").randrange(len(names))
        prof = profiles[names[pick]]
        return run_session(prop, run_seed, prof, monitors, known=known, own_tree=own_tree,
                           prelude=prelude, finale=finale)

    def execute(case, known=None):
        prof = profiles[case["profile"]]
        return run_session(prop, case["run_seed"], prof, monitors, ops=case["ops"], known=known,
                           own_tree=own_tree, prelude=prelude, finale=finale,
                           config=case.get("config"))

    return explore, execute
