"""simkit - deterministic simulation with fault injection for python-odml.

See /verif/DESIGN.md.  Engines: session (editing histories with refused
operations and restarts), fsbox (sandboxed real file system with storage
faults and listing-order seam), threads (baton-passing scheduler for the
terminology / template loader threads).
"""
