"""Seeded, state-directed generator of SESSION operations.

A Profile says which op families are enabled, with which weights, the name
alphabet and the share of *fault ops*: ops whose arguments are chosen by looking
at the current universe so that the library has a reason to refuse them.
"""
from .classify import attach_labels
from .universe import kind_of

NAMES = ["a", "b", "c"]
RARE_NAMES = ["d", "x y", "ä", "A", " ", "\t", " a", "a/b",
              # the same letter in decomposed form: another name (names are compared code point
              # by code point everywhere)
              "a\u0308"]
TYPES = ["t1", "t2", "n.s.", "T1/sub"]
TEXTS = [None, "some text", "Some  Text", "other"]

CARD_ATTRS = {"val": "val_cardinality", "sec": "sec_cardinality", "prop": "prop_cardinality"}
REPOS = ["file:///nowhere/term_a.xml", "file:///nowhere/term_b.xml"]

GOOD_OID = "5b6a1b40-2bd4-4a12-8f3c-0a1b2c3d4e5f"
OIDS_BAD = ["5B6A1B40-2BD4-4A12-8F3C-0A1B2C3D4E5F",          # upper case (valid spelling)
            "{5b6a1b40-2bd4-4a12-8f3c-0a1b2c3d4e5f}",        # braced (valid spelling)
            "5b6a1b402bd44a128f3c0a1b2c3d4e5f",              # no dashes (valid spelling)
            "5b6a1b40-2bd4-4a12-8f3c",                        # truncated
            "garbage", "", "zzzzzzzz-zzzz-zzzz-zzzz-zzzzzzzzzzzz", "1",
            # spellings only Python's uuid parser accepts (sign, separators, white space): the
            # library delegates the syntax to it; whatever it decides, the stored id is canonical
            "+" + "a" * 31, "a_" * 15 + "aa", " " + "a" * 31, "a" * 31 + "\n",
            "urn:uuid:5b6a1b40-2bd4-4a12-8f3c-0a1b2c3d4e5f", "5b6a1b40-2bd4-4a12-8f3c-0a1b2c3d4e5", 7]

DTYPES = ["string", "text", "int", "float", "url", "datetime", "date", "time", "boolean",
          "person", "2-tuple", "3-tuple", "1-tuple", "10-tuple", "12-tuple"]

# shape table: per dtype native values, text forms and near misses (tagged JSON)
VALUE_TABLE = {
    "int": {"good": [0, 1, -7, 42, 12345678901234567890], "text": ["3", "-4", "007"],
            "near": ["1.5", "abc", 1.5, True, "1e3", " 8 "]},
    "float": {"good": [0.0, 1.5, -2.25, 1e300, {"float": "inf"}], "text": ["1.5", "1e3", "-0.0", "7"],
              "near": ["abc", "1,5", 3, False]},
    "boolean": {"good": [True, False], "text": ["true", "False", "1", "0", "t", "F"],
                "near": ["yes", "2", 2, "maybe", 0, 1]},
    "string": {"good": ["a", "hello world", "ünï", "x,y", "[br]acket"],
               # text that looks like another dtype (the string-dtype hint of the validation)
               "text": ["s", "17", "2.5", "true", "2020-01-02", "12:34:56", "-3"],
               "near": [1, 2.5, True, "  padded  "]},
    "text": {"good": ["line1\nline2", "plain"], "text": ["t\nu"], "near": [5]},
    "url": {"good": ["http://x.org/a"], "text": ["file:///tmp/x"], "near": [7]},
    "person": {"good": ["Doe, J", "Jane"], "text": ["J. D."], "near": [7]},
    "date": {"good": [{"date": "2020-01-02"}, {"date": "1999-12-31"}, {"date": "0800-12-25"}],
             "text": ["2020-01-02", "2020-1-2"],
             "near": ["2020-13-01", "01.02.2020", {"datetime": "2020-01-02T03:04:05"}, 20200102]},
    "time": {"good": [{"time": "12:34:56"}, {"time": "00:00:00"}, {"time": "12:34:56+02:00"}], "text": ["12:34:56", "1:2:3"],
             "near": ["25:00:00", "12:34", {"time": "12:34:56.789000"}, 1234]},
    "datetime": {"good": [{"datetime": "2020-01-02T03:04:05"}, {"datetime": "0999-01-02T03:04:05"},
                          {"datetime": "2020-01-02T03:04:05+02:00"},
                          {"datetime": "2020-01-02T03:04:05.5-01:00"}], "text": ["2020-01-02 03:04:05"],
                 "near": ["2020-01-02", "2020-01-02T03:04:05",
                          {"datetime": "2020-01-02T03:04:05.123456"}, {"date": "2020-01-02"},
                          # ISO 8601 texts with what a stored datetime must not carry
                          "2020-01-02T03:04:05.250000", "2020-01-02T03:04:05+02:00",
                          "2020-01-02 03:04:05.250000", "2020-01-02T03:04:05Z"]},
    "2-tuple": {"good": [{"list": ["1", "2"]}, {"list": [" 39.12", "67.19 "]}, {"tuple": ["a ", " b"]},
                         {"list": ["a", ""]},
                         # values that are tuples already (the form they are stored in)
                         {"list": [{"list": ["a", "b"]}]}, {"list": [{"list": ["x", ""]}, {"list": ["1", "2"]}]},
                         {"list": [{"tuple": [1, 2]}]}, {"list": [{"list": ["a;b", "c"]}]},
                         {"list": [{"list": ["(a", "b)"]}]}, {"list": [{"list": [" a", "b "]}]}],
                "text": ["(1;2)", "(a; b)", "( 3 ; 4 )", "(a;)", "(;b)"],
                "near": ["(1;2;3)", "1;2", {"list": ["1", "2", "3"]}, "(1)", {"list": [1, 2]}]},
    "3-tuple": {"good": [{"list": ["1", "2", "3"]}], "text": ["(1;2;3)"],
                "near": ["(1;2)", {"list": ["1", "2"]}]},
    # the count is a number, not a digit
    "1-tuple": {"good": [{"list": ["1"]}], "text": ["(1)", "(a)"],
                "near": ["(1;2)", {"list": ["1", "2"]}, "()"]},
    "10-tuple": {"good": [{"list": [str(i) for i in range(10)]}],
                 "text": ["(0;1;2;3;4;5;6;7;8;9)"],
                 "near": ["(1)", {"list": ["1"]}, "(0;1;2;3;4;5;6;7;8)", "(1;2)"]},
    "12-tuple": {"good": [{"list": [str(i) for i in range(12)]}],
                 "text": ["(a;b;c;d;e;f;g;h;i;j;k;l)"],
                 "near": ["(1)", {"list": ["1", "2"]}, "(1;2)", "(0;1;2;3;4;5;6;7;8;9)"]},
}
SPECIAL_INPUTS = [None, "", " ", {"list": [""]}, {"list": ["", "  "]}, {"list": []}, {"tuple": []},
                  {"set": []}, {"set": [1]},     # (no iterators: their text form holds an address)
                  "[a, b]", "[1, 2, 3]", "(1;2)", {"dict": {"a": 1}},
                  {"list": [1, "a"]}, {"list": ["", "x"]}, {"tuple": [1, 2]}, "[(1;2),(3;4)]"]

CARDS_GOOD = [None, 1, 2, 3, {"tuple": [None, 2]}, {"tuple": [1, None]}, {"tuple": [1, 3]},
              {"tuple": [2, 2]}, {"tuple": [0, 1]}, {"list": [1, 2]}, 0, {"tuple": [None, None]},
              {"tuple": [0, 0]}]
CARDS_BAD = [-1, {"tuple": [-1, 2]}, {"tuple": [3, 1]}, {"tuple": [1, 2, 3]}, {"tuple": [1]},
             "1", "(1,2)", 1.5, {"tuple": [1.5, 2]}, {"tuple": ["a", "b"]}, {"tuple": [1, -2]},
             {"tuple": [None, -1]}, {"list": [2, 1]}]


class Profile(object):
    def __init__(self, name, weights, fault_share=0.3, length=(3, 15), long_share=0.15,
                 long_length=(16, 40), max_objs=40, names=None, rare_name_share=0.05,
                 backends=("xml", "json", "yaml"), dtypes=None, detached_share=0.35,
                 save_only_backends=(), wfilter_share=0.0, deep_range=(33, 40), deep_room=45):
        self.name = name
        # levels of the one deep branch a run may build, and the room it needs in the universe
        self.deep_range = deep_range
        self.deep_room = deep_room
        self.weights = dict(weights)
        self.fault_share = fault_share
        self.length = length
        self.long_share = long_share
        self.long_length = long_length
        self.max_objs = max_objs
        self.names = names or NAMES
        self.rare_name_share = rare_name_share
        self.backends = backends
        self.dtypes = dtypes or DTYPES
        self.detached_share = detached_share
        self.save_only_backends = save_only_backends
        # share of runs in which the application has turned warnings into errors (-W error)
        self.wfilter_share = wfilter_share

    def describe(self):
        return {"name": self.name, "fault_share": self.fault_share,
                "weights": self.weights, "length": list(self.length)}


class Gen(object):
    def __init__(self, U, rng, profile):
        self.U = U
        self.rng = rng
        self.p = profile
        self.fault_share = profile.fault_share
        fams = sorted(k for k, w in profile.weights.items() if w > 0)
        self.fams = fams
        self.wts = [profile.weights[k] for k in fams]

    # -- helpers -------------------------------------------------------------------
    def ref(self, obj):
        """Reference to obj: [kind, position among the registered objects of that kind]."""
        knd = kind_of(obj)
        pool = self.U.of_kind(knd)
        for i, o in enumerate(pool):
            if o is obj:
                return [knd, i]
        raise ValueError("unregistered object")

    def cref(self, obj):
        """Reference through the 'cont' pool (documents and sections)."""
        pool = self.U.of_kind("doc", "sec")
        for i, o in enumerate(pool):
            if o is obj:
                return ["cont", i]
        raise ValueError("unregistered container")

    def chance(self, prob):
        return self.rng.random() < prob

    def fault(self):
        return self.chance(self.fault_share)

    def pick(self, seq):
        return seq[self.rng.randrange(len(seq))] if seq else None

    def name(self):
        if self.chance(self.p.rare_name_share):
            if self.chance(0.4) and self.U.objs:
                # a name that is the id of an existing object: the "cleared name falls back to
                # the id" rule can then run into a sibling that already carries that name
                return self.pick(self.U.objs).id
            twins = {"\u00e4": "a\u0308", "a\u0308": "\u00e4", "a": "A", "A": "a"}
            near = [twins[o.name] for o in self.nodes() if isinstance(o.name, str) and o.name in twins]
            if near and self.chance(0.4):
                # state-directed: the look-alike of a name that is in use (other code points, other case)
                return self.pick(near)
            return self.pick(RARE_NAMES + [GOOD_OID])
        return self.pick(self.p.names)

    def secs(self):
        return self.U.of_kind("sec")

    def props(self):
        return self.U.of_kind("prop")

    def conts(self):
        return self.U.of_kind("doc", "sec")

    def nodes(self):
        return self.U.of_kind("sec", "prop")

    def room(self, extra=1):
        return len(self.U.objs) + extra <= self.p.max_objs

    def oid(self):
        if self.fault():
            return self.pick(OIDS_BAD)
        if self.chance(0.1):
            return GOOD_OID
        return None

    def split_attach(self, t, pool=None):
        benign, bad = [], []
        for x in (pool if pool is not None else self.nodes()):
            labs = set()
            attach_labels(self.U, t, x, labs)
            (bad if labs else benign).append(x)
        return benign, bad

    def pick_attach(self, t, pool=None):
        benign, bad = self.split_attach(t, pool)
        if self.fault() and bad:
            return self.pick(bad)
        return self.pick(benign) or self.pick(bad)

    # -- values ------------------------------------------------------------------------
    def value_for(self, dtype, allow_list=True):
        """Input for a Property of the given dtype (None: untyped)."""
        r = self.rng.random()
        if r < 0.08:
            return self.pick(SPECIAL_INPUTS)
        if dtype is None or dtype not in VALUE_TABLE:
            dtype = self.pick(self.p.dtypes)
            r = 0.0
        tab = VALUE_TABLE[dtype]
        if self.fault() and r < 0.6:
            if self.chance(0.6):
                pool = tab["near"]
            else:
                other = self.pick([d for d in self.p.dtypes if d != dtype])
                pool = VALUE_TABLE[other]["good"] + VALUE_TABLE[other]["text"]
        else:
            pool = tab["good"] + (tab["text"] if self.chance(0.4) else [])
        first = self.pick(pool)
        if not allow_list or self.chance(0.5):
            return first
        n = self.rng.randint(1, 3)
        items = [first]
        for _ in range(n - 1):
            if self.fault() and self.chance(0.3):
                other = self.pick(self.p.dtypes)
                items.append(self.pick(VALUE_TABLE[other]["good"] + VALUE_TABLE[other]["near"]))
            else:
                items.append(self.pick(pool))
        return {"list": items} if self.chance(0.85) else {"tuple": items}

    def dtype_name(self):
        if self.fault() and self.chance(0.3):
            return self.pick(["bogus", "0-tuple", "tuple", "integer", 5, "", "2-tuples", "2-tuple ",
                              "3-tuple-list", " int", "title", "count", "lower", "name", "value"])
        d = self.pick(self.p.dtypes)
        if d in ("string", "int", "float", "boolean", "date") and self.chance(0.2):
            return {"dtype_member": d}
        return d

    def card(self):
        return self.pick(CARDS_BAD) if self.fault() else self.pick(CARDS_GOOD)

    # -- op families ----------------------------------------------------------------------
    def next(self):
        for _ in range(8):
            fam = self.rng.choices(self.fams, self.wts)[0]
            op = getattr(self, "g_" + fam)()
            if op is not None:
                return op
        return self.g_new_sec() or {"op": "advance", "s": 1}

    def g_new_doc(self):
        if len(self.U.of_kind("doc")) >= 2 or not self.room():
            return None
        op = {"op": "new_doc"}
        if self.chance(0.3):
            op["author"] = self.pick(["me", "", "A. B."])
        if self.chance(0.3):
            op["date"] = self.pick(["2020-01-02", {"date": "2019-03-04"}, "", None]) \
                if not self.fault() else self.pick(["2020-13-45", "yesterday", 5])
        if self.chance(0.2):
            op["version"] = self.pick(["1", "v2", 3])
        if self.chance(0.2):
            op["repository"] = self.pick(REPOS)
        oid = self.oid()
        if oid is not None:
            op["oid"] = oid
        return op

    def _parent_for(self, kx, name):
        """Parent argument for a constructor: None, a fitting container, or an unfitting one."""
        if self.chance(self.p.detached_share):
            return None
        conts = self.conts() if kx == "sec" else self.secs()
        if not conts:
            return None
        if self.fault():
            clash = [c for c in conts if any(
                ch.name == name for ch in (c.sections if kx == "sec" else c.properties))]
            r = self.rng.random()
            if clash and r < 0.6:
                return self.cref(self.pick(clash)) if kx == "sec" else self.ref(self.pick(clash))
            if r < 0.75:
                wrong = self.U.of_kind("prop") if kx == "sec" else self.U.of_kind("doc", "prop")
                if wrong:
                    return self.ref(self.pick(wrong))
                return ["junk", "str"]
        c = self.pick(conts)
        return self.cref(c) if kx == "sec" else self.ref(c)

    def g_new_sec(self):
        if not self.room():
            return None
        name = self.name() if self.chance(0.9) else None
        op = {"op": "new_sec", "name": name, "type": self.pick(TYPES)}
        par = self._parent_for("sec", name)
        if par is not None:
            op["parent"] = par
        oid = self.oid()
        if oid is not None:
            op["oid"] = oid
        if self.chance(0.15):
            op["definition"] = self.pick(TEXTS)
        if self.chance(0.1):
            op["reference"] = self.pick(TEXTS)
        if self.chance(0.12):
            # stored through the constructor, as a reader does: nothing is fetched
            op["repository"] = self.pick(REPOS)
        if self.chance(0.12):
            op["sec_card"] = self.card()
        if self.chance(0.12):
            op["prop_card"] = self.card()
        if self.chance(0.06):
            # a reference stored by the constructor (what a reader does): unresolved until finalize
            paths = [s.get_path() for s in self.secs() if s.parent is not None and
                     kind_of(self.U.top(s)) == "doc"]
            op["link"] = self.pick(paths) if (paths and not self.fault()) else self.pick(["/a", "/nope/x"])
        return op

    def g_new_prop(self):
        if not self.room():
            return None
        name = self.name() if self.chance(0.9) else None
        op = {"op": "new_prop", "name": name}
        par = self._parent_for("prop", name)
        if par is not None:
            op["parent"] = par
        if self.chance(0.6):
            dt = self.dtype_name()
            op["dtype"] = dt
            base = dt["dtype_member"] if isinstance(dt, dict) else dt
            if self.chance(0.8):
                op["values"] = self.value_for(base if isinstance(base, str) else None)
        elif self.chance(0.8):
            op["values"] = self.value_for(None)
        if "values" in op and self.chance(0.06):
            op["value"] = op.pop("values")      # the deprecated keyword of the constructor
        oid = self.oid()
        if oid is not None:
            op["oid"] = oid
        if self.chance(0.15):
            op["unit"] = self.pick(["mV", "s", ""])
        if self.chance(0.1):
            op["uncertainty"] = self.pick([0.1, 0, "0.5", 2]) if not self.fault() \
                else self.pick(["abc", "1,5"])
        if self.chance(0.1):
            op["definition"] = self.pick(TEXTS)
        if self.chance(0.1):
            # the name of a sibling Property - or, by accident, of a sub-Section - of the parent
            op["dependency"] = self.name()
            if self.chance(0.5):
                op["dependency_value"] = self.pick(["a", "1", "x"])
        if self.chance(0.12):
            op["val_card"] = self.card()
        return op

    def g_create_section(self):
        conts = self.conts()
        if not conts or not self.room():
            return None
        t = self.pick(conts)
        name = self.name()
        if not self.fault():
            free = [n for n in self.p.names + RARE_NAMES if not any(s.name == n for s in t.sections)]
            name = self.pick(free) or name
        op = {"op": "create_section", "t": self.cref(t), "name": name, "type": self.pick(TYPES)}
        oid = self.oid()
        if oid is not None:
            op["oid"] = oid
        if self.chance(0.1):
            # the rarely used keyword arguments of create_section
            paths = [s.get_path() for s in self.secs() if s.parent is not None and
                     kind_of(self.U.top(s)) == "doc"]
            op["link"] = self.pick(paths) if (paths and not self.fault()) else \
                self.pick(["/nope/x", "../zzz", "/a"])
        if self.chance(0.05):
            op["repository"] = self.pick(REPOS)
        return op

    def g_create_property(self):
        secs = self.secs()
        if not secs or not self.room():
            return None
        t = self.pick(secs)
        name = self.name()
        if not self.fault():
            free = [n for n in self.p.names + RARE_NAMES
                    if not any(s.name == n for s in t.properties)]
            name = self.pick(free) or name
        op = {"op": "create_property", "t": self.ref(t), "name": name}
        if self.chance(0.7):
            dt = self.dtype_name()
            if isinstance(dt, (str, dict)):
                op["dtype"] = dt
            base = dt["dtype_member"] if isinstance(dt, dict) else dt
            op["values"] = self.value_for(base if isinstance(base, str) else None)
        oid = self.oid()
        if oid is not None:
            op["oid"] = oid
        return op

    def _attach_target(self):
        conts = self.conts()
        if not conts:
            return None
        if self.fault() and self.chance(0.08):
            props = self.props()
            if props:
                return self.pick(props)
        return self.pick(conts)

    def _tref(self, t):
        return self.cref(t) if kind_of(t) in ("doc", "sec") else self.ref(t)

    def g_append(self):
        t = self._attach_target()
        if t is None:
            return None
        if self.fault() and self.chance(0.1):
            x = self.pick([["junk", "str"], ["junk", "int"], ["lst", []], ["none"]])
            return {"op": "append", "t": self._tref(t), "x": x}
        if self.fault() and self.chance(0.08) and self.nodes():
            return {"op": "append", "t": self._tref(t), "x": ["lst", [self.ref(self.pick(self.nodes()))]]}
        x = self.pick_attach(t) if kind_of(t) != "prop" else self.pick(self.nodes())
        if x is None:
            return None
        return {"op": "append", "t": self._tref(t), "x": self.ref(x)}

    def g_insert(self):
        op = self.g_append()
        if op is None:
            return None
        op["op"] = "insert"
        op["i"] = self.pick([0, 0, 1, 2, -1, 5])
        if self.fault() and self.chance(0.12):
            op["i"] = self.pick(["x", 1.5, None, 10 ** 30, -10 ** 30])   # positions list.insert refuses
        return op

    def g_extend(self):
        t = self._attach_target()
        if t is None or kind_of(t) == "prop":
            return None
        if self.fault() and self.chance(0.08):
            return {"op": "extend_raw", "t": self._tref(t), "x": ["junk", "int"]} if self.chance(0.5) \
                else {"op": "extend", "t": self._tref(t), "xs": [["junk", "str"]]}
        benign, bad = self.split_attach(t)
        n = self.rng.randint(1, 3)
        xs = []
        for k in range(n):
            if self.fault() and xs and self.chance(0.35):
                xs.append(self.pick(xs))     # duplicate inside the argument
                continue
            if self.fault() and bad and self.chance(0.6):
                x = self.pick(bad)
            else:
                x = self.pick(benign) or self.pick(bad)
            if x is None:
                break
            xs.append(x)
        if not xs:
            return None
        if self.fault() and len(xs) > 1 and self.chance(0.5):
            # the offending element last: everything before it must not stay attached
            xs.sort(key=lambda o: any(o is b for b in bad))
        return {"op": "extend", "t": self._tref(t), "xs": [self.ref(x) for x in xs]}

    def g_remove(self):
        conts = [c for c in self.conts() if len(c.sections) or
                 (kind_of(c) == "sec" and len(c.properties))]
        if self.fault() or not conts:
            t = self.pick(self.conts())
            x = self.pick(self.nodes())
            if t is None or x is None:
                return None
            if self.chance(0.15):
                return {"op": "remove", "t": self.cref(t), "x": ["junk", "str"]}
            return {"op": "remove", "t": self.cref(t), "x": self.ref(x)}
        t = self.pick(conts)
        kids = list(t.sections) + (list(t.properties) if kind_of(t) == "sec" else [])
        return {"op": "remove", "t": self.cref(t), "x": self.ref(self.pick(kids))}

    def g_set_parent(self):
        x = self.pick(self.nodes())
        if x is None:
            return None
        r = self.rng.random()
        if r < 0.15:
            return {"op": "set_parent", "x": self.ref(x), "p": ["none"]}
        if self.fault():
            if r < 0.25:
                return {"op": "set_parent", "x": self.ref(x),
                        "p": self.pick([["junk", "str"], ["junk", "int"]])}
            cands = []
            for c in self.conts():
                labs = set()
                attach_labels(self.U, c, x, labs)
                if labs - {"obj_attached_here"}:
                    cands.append(c)
            if cands:
                return {"op": "set_parent", "x": self.ref(x), "p": self.cref(self.pick(cands))}
            wrong = self.props() if kind_of(x) == "sec" else self.U.of_kind("doc")
            if wrong and self.chance(0.3):
                return {"op": "set_parent", "x": self.ref(x), "p": self.ref(self.pick(wrong))}
        conts = self.conts() if kind_of(x) == "sec" else self.secs()
        good = []
        for c in conts:
            labs = set()
            attach_labels(self.U, c, x, labs)
            if not (labs - {"obj_attached_here", "obj_attached_elsewhere"}):
                good.append(c)
        c = self.pick(good)
        if c is None:
            return None
        return {"op": "set_parent", "x": self.ref(x), "p": self.cref(c)}

    def g_setitem(self):
        conts = [c for c in self.conts() if len(c.sections) or
                 (kind_of(c) == "sec" and len(c.properties))]
        t = self.pick(conts)
        if t is None:
            return None
        which = "sections"
        if kind_of(t) == "sec" and len(t.properties) and (not len(t.sections) or self.chance(0.5)):
            which = "properties"
        lst = t.sections if which == "sections" else t.properties
        i = self.rng.randrange(len(lst))
        if self.fault() and self.chance(0.1):
            i = len(lst) + 1
        want = "sec" if which == "sections" else "prop"
        pool = self.U.of_kind(want)
        if self.fault():
            if self.chance(0.1):
                other = self.U.of_kind("prop" if want == "sec" else "sec")
                x = self.pick(other)
                if x is not None:
                    return {"op": "setitem", "t": self.cref(t), "which": which, "i": i, "x": self.ref(x)}
            clash = [x for x in pool if any(c is not lst[min(i, len(lst) - 1)] and c is not x and
                                            c.name == x.name for c in lst)]
            attached = [x for x in pool if x.parent is not None]
            x = self.pick(clash if (clash and self.chance(0.5)) else (attached or pool))
        else:
            if i >= len(lst):
                return None
            cur = lst[i]
            free = [x for x in pool if x.parent is None and
                    not any(c is not cur and c.name == x.name for c in lst)]
            x = self.pick(free)
        if x is None:
            return None
        op = {"op": "setitem", "t": self.cref(t), "which": which, "i": i, "x": self.ref(x)}
        if i < len(lst) and isinstance(lst[i].name, str) and self.chance(0.2):
            op["key"] = lst[i].name        # the child lists also take the name of a child as key
        return op

    def g_reorder(self):
        x = self.pick(self.nodes())
        if x is None:
            return None
        # positions inside, at and beyond both ends of the sibling list
        i = self.pick([0, 1, 2, 3, -1, -2, -5, 7])
        if x.parent is not None and self.chance(0.5):
            # state-directed: every position from twice the number of siblings before the front
            # to twice behind the end, for objects that have siblings
            sibs = x.parent.sections if kind_of(x) == "sec" else x.parent.properties
            n = len(sibs)
            if n >= 2:
                i = self.rng.randint(-2 * n - 1, 2 * n + 1)
        if self.fault() and self.chance(0.15):
            i = self.pick([1.5, "x", None, 10 ** 30, -10 ** 30])
        return {"op": "reorder", "x": self.ref(x), "i": i}

    def g_rename(self):
        x = self.pick(self.nodes())
        if x is None:
            return None
        r = self.rng.random()
        if self.fault() and r < 0.5:
            # state-directed: an object one of whose siblings is named like the object's id
            hit = [o for o in self.nodes() if o.parent is not None and o.name != o.id and any(
                s is not o and s.name == o.id
                for s in (o.parent.sections if kind_of(o) == "sec" else o.parent.properties))]
            if hit:
                return {"op": "rename", "x": self.ref(self.pick(hit)), "name": self.pick([None, ""])}
        if r < 0.12:
            nm = self.pick([None, ""])
        elif r < 0.2:
            nm = x.name if isinstance(x.name, str) else "a"
        elif self.fault() and x.parent is not None:
            sibs = x.parent.sections if kind_of(x) == "sec" else x.parent.properties
            others = [s.name for s in sibs if s is not x]
            nm = self.pick(others) or self.name()
        else:
            nm = self.name()
        return {"op": "rename", "x": self.ref(x), "name": nm}

    def g_new_id(self):
        x = self.pick(self.U.objs)
        if x is None:
            return None
        if self.fault() and self.chance(0.4):
            # state-directed: an object named by its id, next to a sibling whose name is a valid id
            import uuid as _uuid
            hits = []
            for o in self.nodes():
                if o.parent is None or o.name != o.id:
                    continue
                sibs = o.parent.sections if kind_of(o) == "sec" else o.parent.properties
                for sib in sibs:
                    if sib is o or not isinstance(sib.name, str):
                        continue
                    try:
                        if str(_uuid.UUID(sib.name)) == sib.name:
                            hits.append((o, sib.name))
                    except ValueError:
                        pass
            if hits:
                o, oid = self.pick(hits)
                return {"op": "new_id", "x": self.ref(o), "oid": oid}
        op = {"op": "new_id", "x": self.ref(x)}
        if self.chance(0.6):
            op["oid"] = self.pick(OIDS_BAD) if self.fault() else GOOD_OID
        return op

    def g_set_attr(self):
        x = self.pick(self.nodes())
        docs = self.U.of_kind("doc")
        if docs and (x is None or self.chance(0.12)):
            d = self.pick(docs)
            attr = self.pick(["author", "version", "date", "date", "repository"])
            if attr == "date":
                v = self.pick(["2020-01-02", {"date": "2019-03-04"}, "", None]) if not self.fault() \
                    else self.pick(["2020-13-45", "yesterday", 5, "01.02.2020"])
            elif attr == "repository":
                v = self.pick(REPOS + [None, ""])
            else:
                v = self.pick(["me", "", None, "v2", 3])
            return {"op": "set_attr", "x": self.ref(d), "attr": attr, "v": v}
        if x is None:
            return None
        if kind_of(x) == "sec":
            attr = self.pick(["type", "definition", "reference"])
            v = self.pick(TYPES) if attr == "type" else self.pick(TEXTS + [""])
        else:
            attr = self.pick(["unit", "definition", "reference", "value_origin", "uncertainty",
                              "dependency", "dependency_value"])
            if attr == "uncertainty":
                v = self.pick([0.1, 0, "0.5", 2, None, ""]) if not self.fault() \
                    else self.pick(["abc", "1,5"])
            elif attr == "dependency":
                v = self.name()
            else:
                v = self.pick(TEXTS + ["", "mV"])
        return {"op": "set_attr", "x": self.ref(x), "attr": attr, "v": v}

    # values
    def _prop(self):
        return self.pick(self.props())

    def g_set_values(self):
        x = self._prop()
        if x is None:
            return None
        return {"op": "set_values", "x": self.ref(x), "v": self.value_for(x.dtype)}

    def g_set_dtype(self):
        x = self._prop()
        if x is None:
            return None
        if self.chance(0.08):
            return {"op": "set_dtype", "x": self.ref(x), "v": None}      # "no dtype" is an assignment too
        return {"op": "set_dtype", "x": self.ref(x), "v": self.dtype_name()}

    def g_v_append(self):
        x = self._prop()
        if x is None:
            return None
        return {"op": "v_append", "x": self.ref(x), "v": self.value_for(x.dtype, allow_list=self.fault()),
                "strict": self.chance(0.6)}

    def g_v_extend(self):
        x = self._prop()
        if x is None:
            return None
        if self.chance(0.15) and len(self.props()) > 1:
            # state-directed: preferably a Property of the same dtype that holds values (what one
            # Property stores is valid input for another)
            alike = [p for p in self.props() if p is not x and p.dtype == x.dtype and len(p.values)
                     and len(x.values)]
            y = self.pick(alike) if alike and self.chance(0.7) else self.pick(self.props())
            return {"op": "v_extend_prop", "x": self.ref(x), "y": self.ref(y)}
        return {"op": "v_extend", "x": self.ref(x), "v": self.value_for(x.dtype),
                "strict": self.chance(0.6)}

    def g_v_insert(self):
        x = self._prop()
        if x is None:
            return None
        n = len(x.values)
        i = self.rng.randint(0, n) if not self.fault() else self.pick([n + 2, -1, 0])
        return {"op": "v_insert", "x": self.ref(x), "i": i,
                "v": self.value_for(x.dtype, allow_list=self.fault()), "strict": self.chance(0.6)}

    def g_v_setitem(self):
        x = self._prop()
        if x is None:
            return None
        n = len(x.values)
        if n == 0 and not self.fault():
            return None
        i = self.rng.randrange(n) if (n and not (self.fault() and self.chance(0.3))) \
            else self.pick([n, n + 1, -1])
        return {"op": "v_setitem", "x": self.ref(x), "i": i,
                "v": self.value_for(x.dtype, allow_list=False)}

    def g_v_item_mutate(self):
        cands = [p for p in self.props() if str(p.dtype).endswith("-tuple") and len(p.values)]
        x = self.pick(cands)
        if x is None:
            return None
        return {"op": "v_item_mutate", "x": self.ref(x), "i": self.rng.randrange(4),
                "j": self.rng.randrange(3), "v": self.pick(["zz", "9", "q"])}

    def g_v_remove(self):
        x = self._prop()
        if x is None:
            return None
        if x.values and not self.fault():
            return {"op": "v_remove_at", "x": self.ref(x), "i": self.rng.randrange(len(x.values))}
        return {"op": "v_remove", "x": self.ref(x), "v": self.value_for(x.dtype, allow_list=False)}

    def g_reassign_values(self):
        x = self._prop()
        if x is None:
            return None
        return {"op": "reassign_values", "x": self.ref(x)}

    # cardinalities
    def g_set_card(self):
        x = self.pick(self.nodes())
        # state-directed: now and then the object is a copy a resolved link brought in - a setting
        # on it is what tells the copy from its origin
        brought = [c for s_ in self.secs() if s_.is_merged and s_.link is not None
                   for c in list(s_.sections) + list(s_.properties)]
        if brought and self.chance(0.3):
            x = self.pick(brought)
        if x is None:
            return None
        which = "val" if kind_of(x) == "prop" else self.pick(["sec", "prop"])
        if self.fault() and self.chance(0.25):
            # state-directed: the pair the object has now, spelled with numbers that are no integers
            cur = getattr(x, CARD_ATTRS[which], None)
            if isinstance(cur, tuple) and len(cur) == 2 and any(isinstance(c, int) for c in cur):
                twin = [float(c) if isinstance(c, int) else c for c in cur]
                return {"op": "set_card", "x": self.ref(x), "which": which, "v": {"tuple": twin}}
        if self.chance(0.35):
            lo, hi = self.pick([None, 0, 1, 2]), self.pick([None, 1, 2, 3])
            if self.fault():
                lo, hi = self.pick([(3, 1), (-1, 2), (1, -1), ("a", 1), (1.5, 2)])
            return {"op": "set_card2", "x": self.ref(x), "which": which, "lo": lo, "hi": hi}
        return {"op": "set_card", "x": self.ref(x), "which": which, "v": self.card()}

    # copies
    def g_clone(self):
        x = self.pick(self.U.objs)
        if x is None:
            return None
        children = self.chance(0.75)
        size = len(self.U.subtree(x)) if children else 1
        if not self.room(size):
            return None
        return {"op": "clone", "x": self.ref(x), "children": children, "keep_id": self.chance(0.3)}

    def g_template_clone(self):
        xml = [i for i, ent in enumerate(self.U.files) if ent["backend"] == "xml"]
        if not xml:
            # state-directed: first a template to clone from - a document of this run saved as XML
            d = self.pick([d_ for d_ in self.U.of_kind("doc") if len(d_.sections)])
            if d is None:
                return None
            return {"op": "save", "d": self.ref(d), "name": "tmpl", "backend": "xml"}
        if not self.room(6):
            return None
        if self.U.templates is not None and self.chance(0.5):
            # state-directed: a template the handler holds already in which the name of a root
            # Section is also used further down in an earlier root - ask for that root by name
            for url, doc in sorted(dict.items(self.U.templates)):
                roots = list(doc.sections)
                for k, sec in enumerate(roots):
                    earlier = [s_ for r in roots[:k] for s_ in self.U.subtree(r)[1:]
                               if kind_of(s_) == "sec" and s_.name == sec.name]
                    if earlier:
                        f = [i for i in xml if url.endswith(self.U.files[i]["path"])]
                        if f:
                            return {"op": "template_clone", "f": f[0], "i": k,
                                    "children": self.chance(0.75), "keep_id": self.chance(0.3)}
        return {"op": "template_clone", "f": self.pick(xml), "i": self.rng.randrange(4),
                "children": self.chance(0.75), "keep_id": self.chance(0.3)}

    def g_export_leaf(self):
        x = self.pick(self.nodes())
        if x is None or not self.room(len(self.U.ancestors(x)) * 3 + 2):
            return None
        return {"op": "export_leaf", "x": self.ref(x)}

    def g_get_values(self):
        x = self._prop()
        if x is None or len(self.U.aliases) >= 6:
            return None
        return {"op": "get_values", "x": self.ref(x)}

    def g_alias_mutate(self):
        if not self.U.aliases:
            return None
        a = self.rng.randrange(len(self.U.aliases))
        how = self.pick(["append", "set", "nested_set", "nested_set", "nested_append", "clear"])
        return {"op": "alias_mutate", "a": a, "how": how, "i": self.rng.randrange(4),
                "j": self.rng.randrange(3), "v": self.pick(["zz", 99, "(9;9)"])}

    # merge / links
    def g_merge(self):
        if self.chance(0.3) and len(self.props()) >= 2:
            t, x = self.pick(self.props()), self.pick(self.props())
            return {"op": "merge", "t": self.ref(t), "x": self.ref(x), "strict": self.chance(0.5)}
        secs = self.secs()
        if len(secs) < 2:
            return None
        mem = self.__dict__.setdefault("_foreign_merge", {})
        if mem.get("pair") is not None:
            # the wrong-typed merge below was issued: the Property gets values, then the
            # document (or a linking Section above) is cleaned / its link is taken away
            ti, xi = mem["pair"]
            t = self.U.objs[ti] if ti is not None and ti < len(self.U.objs) else None
            x = self.U.objs[xi] if xi is not None and xi < len(self.U.objs) else None
            if t is None or x is None or kind_of(t) != "sec" or kind_of(x) != "prop" or not t.is_merged:
                mem.clear()
            elif not x.values:
                return {"op": "set_values", "x": self.ref(x), "v": "abc"}
            else:
                mem.clear()
                above = [a for a in self.U.ancestors(t) if kind_of(a) == "sec" and a.link is not None]
                if above and self.chance(0.5):
                    return {"op": "set_link", "x": self.ref(above[0]), "path": None}
                return {"op": "clean", "x": self.cref(self.U.top(t))}
        if self.fault() and self.chance(0.2) and self.props():
            # wrong type: a Property (by preference one without values, which looks like an empty
            # container) handed in as the source of a Section's merge - by preference to a Section
            # of a document that holds a resolved link, or inside such a Section
            empty = [p for p in self.props() if not p.values]
            x = self.pick(empty) if (empty and self.chance(0.7)) else self.pick(self.props())
            near = [s_ for s_ in secs if any(kind_of(o) == "sec" and o.is_merged and o.link is not None
                                             for o in self.U.subtree(self.U.top(s_)))]
            t = self.pick(near) if (near and self.chance(0.7)) else self.pick(secs)
            if not x.values and not t.is_merged:
                mem["pair"] = (self.U.index(t), self.U.index(x))
            return {"op": "merge", "t": self.ref(t), "x": self.ref(x), "strict": self.chance(0.5)}
        if self.fault() and self.chance(0.3):
            # a merge that has to be refused, issued on a Section whose link is resolved (state in
            # flight: copies and what the link brought along are in place)
            linked = [s_ for s_ in secs if s_.is_merged and (len(s_.sections) or s_.parent is not None)]
            t = self.pick(linked)
            if t is not None:
                rel = list(t.sections) + ([t.parent] if kind_of(t.parent) == "sec" else []) + [t]
                return {"op": "merge", "t": self.ref(t), "x": self.ref(self.pick(rel)),
                        "strict": self.chance(0.5)}
        t, x = self.pick(secs), self.pick(secs)
        if not self.room(len(self.U.subtree(x))):
            return None
        return {"op": "merge", "t": self.ref(t), "x": self.ref(x), "strict": self.chance(0.5)}

    def g_merge_check(self):
        """merge_check on its own, then the merge it was asked about after the answer has gone out
        of date.  One op per call, chosen by looking at the state: two Sections with a Property of
        one name -> merge_check -> an edit that makes the two Properties unmergeable -> merge."""
        from odml import dtypes as _dt
        secs = self.secs()
        if len(secs) < 2:
            return None
        for ti, xi, strict in reversed(self.U.__dict__.get("checked") or []):
            if ti is None or xi is None or ti >= len(self.U.objs) or xi >= len(self.U.objs):
                continue
            t, x = self.U.objs[ti], self.U.objs[xi]
            if kind_of(t) != "sec" or kind_of(x) != "sec" or self.chance(0.2):
                continue
            twins = [(c, p) for p in x.properties for c in t.properties if c.name == p.name]
            if not twins:
                continue
            clash = False
            for c, p in twins:
                try:
                    for v in p.values:
                        _dt.get(v, c.dtype)
                    if c.unit is not None and p.unit is not None and c.unit != p.unit:
                        clash = True
                except Exception:
                    clash = True
            if clash:
                if not self.room(len(self.U.subtree(x))):
                    return None
                return {"op": "merge", "t": self.ref(t), "x": self.ref(x),
                        "strict": strict if self.chance(0.8) else not strict}
            c, p = self.pick(twins)
            if self.chance(0.4):
                return {"op": "set_attr", "x": self.ref(p), "attr": "unit",
                        "v": "mV" if c.unit != "mV" and c.unit is not None else "kOhm"} \
                    if c.unit is not None else {"op": "set_attr", "x": self.ref(c), "attr": "unit", "v": "mV"}
            if c.dtype in ("string", "text", None):
                return {"op": "set_values", "x": self.ref(c), "v": self.pick([7, {"list": [1, 2]}])}
            return {"op": "set_values", "x": self.ref(p), "v": self.pick(["abc", "x y"])}
        pairs = [(t, x) for t in secs for x in secs if t is not x and
                 not any(a is x for a in self.U.ancestors(t)) and not any(a is t for a in self.U.ancestors(x))
                 and any(c.name == p.name for c in t.properties for p in x.properties)]
        if pairs and self.chance(0.8):
            t, x = self.pick(pairs)
        else:
            t, x = self.pick(secs), self.pick(secs)
            if t is not x and len(x.properties) and not len([c for c in t.properties
                                                             if c.name == x.properties[0].name]) \
                    and self.room(1) and self.chance(0.6):
                # no two Sections share a Property name yet: give t one named like one of x's
                return {"op": "create_property", "t": self.ref(t), "name": x.properties[0].name,
                        "dtype": "string", "values": "abc"}
        return {"op": "merge_check", "t": self.ref(t), "x": self.ref(x), "strict": self.chance(0.6)}

    def g_merge_self(self):
        """sec.merge() without an argument: resolve the Section's own stored link / include."""
        linked = [s for s in self.secs() if s.link is not None or s.include is not None]
        x = self.pick(linked) if (linked and not self.fault()) else self.pick(self.secs())
        if x is None or not self.room(8):
            return None
        return {"op": "merge_self", "x": self.ref(x)}

    def g_set_link(self):
        secs = [s for s in self.secs() if s.parent is not None]
        x = self.pick(secs if not (self.fault() and self.chance(0.2)) else self.secs())
        if self.fault() and self.chance(0.5):
            # re-link: a Section whose link / include is already resolved is the in-flight state
            linked = [s for s in secs if s.link is not None or s.include is not None]
            x = self.pick(linked) or x
        if x is None:
            return None
        if self.fault() and self.chance(0.4):
            path = self.pick(["/nope", "../zzz", "", "a/b/c", "/"])
            return {"op": "set_link", "x": self.ref(x), "path": path}
        doc_secs = [s for s in self.U.subtree(self.U.top(x)) if kind_of(s) == "sec" and s is not x]
        ok = [s for s in doc_secs if not any(a is x for a in self.U.ancestors(s)) and
              not any(a is s for a in self.U.ancestors(x))]
        tgt = self.pick(ok if not self.fault() else (doc_secs or ok))
        if tgt is None or not self.room(len(self.U.subtree(tgt))):
            return None
        if kind_of(self.U.top(tgt)) != "doc":
            return None
        path = tgt.get_path()
        return {"op": "set_link", "x": self.ref(x), "path": path}

    def g_set_repository(self):
        """A Document or Section is given a terminology that loads: a document saved earlier in
        this run.  State-directed: documents get different files, so that Sections of one type
        inherit different terminologies."""
        xml = [i for i, ent in enumerate(self.U.files) if ent["backend"] == "xml"]
        if not xml:
            return self.g_save() if hasattr(self, "g_save") else None
        conts = [c for c in self.conts() if not c.repository] or self.conts()
        x = self.pick(conts)
        if x is None:
            return None
        used = [c.repository for c in self.conts() if c.repository]
        fresh = [i for i in xml if not any(str(u).endswith(self.U.files[i]["path"]) for u in used)]
        return {"op": "set_repository", "x": self.cref(x), "f": self.pick(fresh or xml)}

    def g_set_include(self):
        """include of a Section of a document saved earlier in this run (file: URL of the store)."""
        secs = [s for s in self.secs() if s.parent is not None]
        x = self.pick(secs if not (self.fault() and self.chance(0.2)) else self.secs())
        if x is None:
            return None
        if self.fault() and self.chance(0.3):
            return {"op": "set_include", "x": self.ref(x), "labels": ["include_unfetchable"],
                    "url": self.pick(["file:///nowhere/missing.xml", "file:///nowhere/missing.xml#/a",
                                      "sim-unknown-scheme://x/y.xml"])}
        xml = [i for i, ent in enumerate(self.U.files) if ent["backend"] == "xml"]
        other = [i for i, ent in enumerate(self.U.files) if ent["backend"] != "xml"]
        if self.fault() and other and self.chance(0.3):
            return {"op": "set_include", "x": self.ref(x), "f": self.pick(other), "frag": "/a",
                    "labels": ["include_not_xml"]}
        if not xml:
            return None
        f = self.pick(xml)
        docs = self.U.of_kind("doc")
        paths = [s.get_path() for d in docs for s in self.U.subtree(d) if kind_of(s) == "sec"]
        if self.fault() and self.chance(0.4):
            return {"op": "set_include", "x": self.ref(x), "f": f,
                    "frag": self.pick(["/nope", "/a/zzz", "", "//"]),
                    "labels": ["include_path_unresolvable"]}
        frag = self.pick(paths) if self.chance(0.85) else None
        if frag is not None and not self.room(6):
            return None
        return {"op": "set_include", "x": self.ref(x), "f": f, "frag": frag}

    def g_finalize(self):
        d = self.pick(self.U.of_kind("doc"))
        if d is None:
            return None
        return {"op": "finalize", "d": self.ref(d)}

    def g_clean(self):
        x = self.pick(self.conts())
        if x is None:
            return None
        return {"op": "clean", "x": self.cref(x)}

    # validation
    def g_validate(self):
        x = self.pick(self.U.objs)
        if x is None:
            return None
        return {"op": "validate", "x": self.ref(x)}

    def g_doc_validate(self):
        d = self.pick(self.U.of_kind("doc"))
        if d is None:
            return None
        return {"op": "doc_validate", "d": self.ref(d)}

    def g_validate_keep(self):
        x = self.pick(self.U.of_kind("doc", "sec"))
        if x is None or len(self.U.validations) >= 4:
            return None
        return {"op": "validate_keep", "x": self.ref(x)}

    def g_validate_rerun(self):
        if not self.U.validations:
            return self.g_validate_keep()
        # state-directed: ask a Validation that has reported before for its report again
        asked = getattr(self, "_reported_vals", None)
        if asked is None:
            asked = self._reported_vals = []
        if asked and self.chance(0.4):
            return {"op": "validate_rerun", "k": self.pick(asked), "report": True}
        k = self.rng.randrange(len(self.U.validations))
        report = self.chance(0.3)
        if report and k not in asked:
            asked.append(k)
        return {"op": "validate_rerun", "k": k, "report": report}

    def g_validate_optional(self):
        x = self.pick(self.U.objs)
        if x is None:
            return None
        return {"op": "validate_optional", "x": self.ref(x),
                # the last two are default rules the library registers for several classes:
                # a custom Validation may use them for one class without the others losing them
                "rule": self.pick(["section_repository_present", "property_terminology_check",
                                   "section_unique_ids", "property_unique_ids",
                                   "object_name_readable", "object_required_attributes"])}

    def g_validate_custom(self):
        x = self.pick(self.U.objs)
        if x is None:
            return None
        return {"op": "validate_custom", "x": self.ref(x),
                "klass": self.pick(["section", "property", "odML"]), "report": self.chance(0.3),
                "raising": self.chance(0.25)}

    # durable store
    def _valid_docs(self):
        return self.U.of_kind("doc")

    def g_save(self):
        d = self.pick(self._valid_docs())
        if d is None:
            return None
        backends = list(self.p.backends) + list(getattr(self.p, "save_only_backends", ()))
        return {"op": "save", "d": self.ref(d), "name": self.pick(["f1", "f2"]),
                "backend": self.pick(backends)}

    def g_load(self):
        if not self.U.files:
            return None
        loadable = [i for i, ent in enumerate(self.U.files) if ent["backend"] != "rdf"]
        if not loadable:
            return None
        return {"op": "load", "f": self.pick(loadable)}

    def g_damage_file(self):
        if not self.U.files:
            return None
        return {"op": "damage_file", "f": self.rng.randrange(len(self.U.files)),
                "how": self.pick(["version", "version", "truncate", "empty", "garbage"])}

    def g_restart(self):
        d = self.pick(self._valid_docs())
        if d is None or not self.room(len(self.U.subtree(d))):
            return None
        op = {"op": "restart", "d": self.ref(d), "backend": self.pick(list(self.p.backends)),
              "via": self.pick(["file", "file", "string", "writer"])}
        if op["via"] == "writer":
            op["backend"] = "xml"       # XMLWriter is the one writer class applications keep
        if any(kind_of(o) == "sec" and o.is_merged and o.link is not None
               for o in self.U.subtree(d)) and self.chance(0.6):
            op["clean"] = True      # the way a document with resolved links is saved: clean first
        return op

    def g_add_raising_rule(self):
        if getattr(self, "_raising_rules", 0) >= 2:
            return None
        self._raising_rules = getattr(self, "_raising_rules", 0) + 1
        return {"op": "add_raising_rule", "klass": self.pick(["property", "section"]),
                "names": [self.pick(self.p.names), self.pick(self.p.names)]}

    def g_deep_chain(self):
        """A branch nested deeper than a walker's idea of 'deep enough' (33 to 40 levels)."""
        if getattr(self, "_deep_chains", 0) >= 1 or not self.room(self.p.deep_room):
            return None
        t = self.pick(self.conts())
        if t is None or len(self.U.ancestors(t)) > 3:
            return None
        name = next((n for n in FRESH if not any(s_.name == n for s_ in t.sections)), None)
        if name is None:
            return None
        self._deep_chains = 1
        return {"op": "deep_chain", "t": self.cref(t), "name": name,
                "n": self.rng.randint(*self.p.deep_range)}

    def g_custom_again(self):
        kept = self.U.__dict__.get("kept_custom") or []
        if not kept:
            x = self.pick(self.U.objs)
            if x is None:
                return None
            return {"op": "validate_custom", "x": self.ref(x), "klass": self.pick(["section", "property"]),
                    "keep": True}
        return {"op": "custom_again", "k": self.rng.randrange(len(kept)), "rerun": self.chance(0.5)}

    def g_reseed(self):
        return {"op": "reseed", "k": self.pick([0, 1, 42])}

    def g_advance(self):
        return {"op": "advance", "s": self.pick([1, 60, 86400, 200000])}


# ---- valid-by-construction add / remove (C09: nothing but a cardinality could refuse them) ----
FRESH = ["n%d" % i for i in range(12)]
SAFE_VALUES = {
    "int": [0, 1, -7, 42], "float": [0.0, 1.5, -2.25], "string": ["a", "hello world", "s"],
    "boolean": [True, False], "date": [{"date": "2020-01-02"}, {"date": "1999-12-31"}],
}


def _fresh_name(gen, container, kind):
    lst = container.sections if kind == "sec" else container.properties
    used = set(c.name for c in lst)
    free = [n for n in FRESH if n not in used]
    return gen.pick(free)


def g_add_valid(self):
    r = self.rng.random()
    if r < 0.06:
        # values arrive through a merge: another Property of the same dtype is merged in
        # (leniently, so that nothing but the number of values could be objected to)
        props = [p for p in self.props() if p.dtype in SAFE_VALUES and len(p.values) < 6]
        p = self.pick(props)
        if p is not None:
            others = [q for q in props if q is not p and q.dtype == p.dtype and len(q.values)]
            q = self.pick(others)
            if q is not None:
                return {"op": "merge", "t": self.ref(p), "x": self.ref(q), "strict": False, "valid": True}
    if r < 0.35:
        props = [p for p in self.props() if p.dtype in SAFE_VALUES and len(p.values) < 6]
        p = self.pick(props)
        if p is None:
            return None
        v = self.pick(SAFE_VALUES[p.dtype])
        route = self.pick(["v_append", "v_extend", "v_insert", "set_values"])
        if route == "v_append":
            return {"op": "v_append", "x": self.ref(p), "v": v, "strict": True, "valid": True}
        if route == "v_extend":
            return {"op": "v_extend", "x": self.ref(p), "v": {"list": [v, self.pick(SAFE_VALUES[p.dtype])]},
                    "strict": True, "valid": True}
        if route == "v_insert":
            if not p.values:
                return None
            return {"op": "v_insert", "x": self.ref(p), "i": self.rng.randint(0, len(p.values)),
                    "v": v, "strict": True, "valid": True}
        n = self.rng.randint(1, 5)
        return {"op": "set_values", "x": self.ref(p),
                "v": {"list": [self.pick(SAFE_VALUES[p.dtype]) for _ in range(n)]}, "valid": True}
    if not self.room(2):
        return None
    kind = "sec" if r < 0.7 else "prop"
    conts = self.conts() if kind == "sec" else self.secs()
    t = self.pick(conts)
    if t is None:
        return None
    name = _fresh_name(self, t, kind)
    if name is None:
        return None
    route = self.pick(["create", "ctor", "attach"])
    if route == "create":
        if kind == "sec":
            return {"op": "create_section", "t": self.cref(t), "name": name, "type": "t1", "valid": True}
        dt = self.pick(sorted(SAFE_VALUES))
        return {"op": "create_property", "t": self.ref(t), "name": name, "dtype": dt,
                "values": self.pick(SAFE_VALUES[dt]), "valid": True}
    if route == "ctor":
        if kind == "sec":
            return {"op": "new_sec", "name": name, "type": "t1", "parent": self.cref(t), "valid": True}
        dt = self.pick(sorted(SAFE_VALUES))
        return {"op": "new_prop", "name": name, "dtype": dt, "values": self.pick(SAFE_VALUES[dt]),
                "parent": self.ref(t), "valid": True}
    # attach an existing detached childless object whose name is free at the destination
    pool = [x for x in self.U.of_kind(kind) if x.parent is None and
            not any(c.name == x.name for c in (t.sections if kind == "sec" else t.properties))
            and x is not t and not any(a is x for a in self.U.ancestors(t))]
    x = self.pick(pool)
    if x is None:
        return None
    how = self.pick(["append", "insert", "extend", "set_parent"])
    if how == "append":
        return {"op": "append", "t": self.cref(t), "x": self.ref(x), "valid": True}
    if how == "insert":
        return {"op": "insert", "t": self.cref(t), "i": 0, "x": self.ref(x), "valid": True}
    if how == "extend":
        return {"op": "extend", "t": self.cref(t), "xs": [self.ref(x)], "valid": True}
    return {"op": "set_parent", "x": self.ref(x), "p": self.cref(t), "valid": True}


def g_remove_valid(self):
    r = self.rng.random()
    if r < 0.35:
        props = [p for p in self.props() if p.values]
        p = self.pick(props)
        if p is None:
            return None
        return {"op": "v_remove_at", "x": self.ref(p), "i": self.rng.randrange(len(p.values)),
                "valid": True}
    nodes = [x for x in self.nodes() if x.parent is not None]
    x = self.pick(nodes)
    if x is None:
        return None
    if self.chance(0.5):
        return {"op": "remove", "t": self.cref(x.parent), "x": self.ref(x), "valid": True}
    return {"op": "set_parent", "x": self.ref(x), "p": ["none"], "valid": True}


Gen.g_add_valid = g_add_valid
Gen.g_remove_valid = g_remove_valid


def g_hold_values(self):
    """Property(values=<list the harness keeps>): the held list becomes an alias."""
    if len(self.U.aliases) >= 6:
        return None
    if self.U.aliases and self.chance(0.5) and self.room():
        a = self.rng.randrange(len(self.U.aliases))
        if self.chance(0.5) and self.props():
            return {"op": "set_values", "x": self.ref(self.pick(self.props())), "v": {"alias": a}}
        return {"op": "new_prop", "name": self.name(), "values": {"alias": a}}
    items = self.pick([[1, 2, 3], ["a", "b"], [["1", "2"], ["3", "4"]], ["(1;2)", "(3;4)"], [1.5]])
    return {"op": "hold_list", "v": {"list": [{"list": i} if isinstance(i, list) else i
                                               for i in items]}}


Gen.g_hold_values = g_hold_values


LOOKALIKES = {"int": ["17", "-3", "0"], "float": ["2.5", "-0.5"], "date": ["2020-01-02"],
              "time": ["12:34:56", "01:02"], "boolean": ["True", "t"], "datetime": ["2020-01-02 03:04"],
              "tuple": ["(1;2)"], "text": ["a\nb"]}


def g_lookalike_prop(self):
    """A string Property all of whose values look like other dtypes, several kinds equally often
    (the string-dtype hint of the default validation has to settle a tie)."""
    secs = self.secs()
    if not secs or not self.room():
        return None
    t = self.pick(secs)
    free = [n for n in FRESH if not any(p.name == n for p in t.properties)]
    if not free:
        return None
    kinds = sorted(LOOKALIKES)
    self.rng.shuffle(kinds)
    kinds = kinds[:self.rng.randint(1, 3)]
    reps = self.rng.randint(1, 2)
    vals = [self.pick(LOOKALIKES[k]) for k in kinds for _ in range(reps)]
    if self.chance(0.15):
        vals.append("plain words")
    self.rng.shuffle(vals)
    return {"op": "create_property", "t": self.ref(t), "name": self.pick(free), "dtype": "string",
            "values": {"list": vals}}


Gen.g_lookalike_prop = g_lookalike_prop


def g_merge_again(self):
    """Merge the same pair of Sections a second time after the copies made by the first merge have
    drifted away from their sources (the in-flight state a re-resolved link meets).  One op per
    call, chosen by looking at the state: first merge -> retype a merged copy -> merge again."""
    from odml import dtypes as _dt
    pairs = []
    for ti, xi in self.U.merges:
        if ti < len(self.U.objs) and xi < len(self.U.objs):
            t, x = self.U.objs[ti], self.U.objs[xi]
            if kind_of(t) == "sec" and kind_of(x) == "sec":
                pairs.append((t, x))
    if not pairs:
        secs = [s for s in self.secs() if len(s.properties)]
        dests = self.secs()
        if not secs or len(dests) < 2:
            return None
        x = self.pick(secs)
        t = self.pick([d for d in dests if d is not x and not any(a is x for a in self.U.ancestors(d))
                       and not any(a is d for a in self.U.ancestors(x))])
        if t is None or not self.room(len(self.U.subtree(x))):
            return None
        return {"op": "merge", "t": self.ref(t), "x": self.ref(x), "strict": False}
    t, x = self.pick(pairs)
    twins = [(c, p) for p in x.properties for c in t.properties if c.name == p.name]
    if not twins:
        return {"op": "create_property", "t": self.ref(x), "name": self.pick(FRESH), "dtype": "string",
                "values": "abc"}
    clash = []
    for c, p in twins:
        try:
            for v in p.values:
                _dt.get(v, c.dtype)
        except Exception:
            clash.append((c, p))
    if clash or self.chance(0.25):
        return {"op": "merge", "t": self.ref(t), "x": self.ref(x), "strict": self.chance(0.3)}
    c, p = self.pick(twins)
    if c.dtype == "string" and c.values and all(str(v).lstrip("-").isdigit() for v in c.values):
        return {"op": "set_dtype", "x": self.ref(c), "v": "int"}
    if c.dtype in ("string", None):
        return {"op": "set_values", "x": self.ref(c), "v": self.pick(["7", {"list": ["1", "2"]}])}
    return {"op": "set_values", "x": self.ref(p), "v": self.pick(["abc", "x y"])}


Gen.g_merge_again = g_merge_again


def g_bulk_create(self):
    """Many children in one container (sibling lists longer than a couple of dozen entries take
    other code paths in containers that index their children)."""
    conts = [c for c in self.conts() if len(c.sections) < 5]
    t = self.pick(conts)
    if t is None or len(self.U.objs) > 12:
        return None
    return {"op": "bulk_create", "t": self.cref(t), "n": self.pick([26, 30]),
            "kind": "sec" if (kind_of(t) == "doc" or self.chance(0.5)) else "prop"}


def g_clone_twice(self):
    """A copy taken from a fresh copy, with nothing looking at the first copy in between."""
    x = self.pick(self.U.objs)
    if x is None or not self.room(2 * len(self.U.subtree(x)) + 2):
        return None
    return {"op": "clone_twice", "x": self.ref(x), "second": self.pick(["clone_keep", "export_leaf"])}


Gen.g_bulk_create = g_bulk_create
Gen.g_clone_twice = g_clone_twice


def g_dependency_scenario(self):
    """A Property that depends on a sibling, validated, the sibling renamed, validated again: one
    op per call, chosen by looking at the state (Section with two Properties -> dependency set to
    the sibling's name -> validate -> rename the sibling (same number of children) -> validate)."""
    mem = self.__dict__.setdefault("_depscen", {})
    live = [(p, q) for p in self.props() if p.parent is not None and isinstance(p.dependency, str)
            for q in p.parent.properties if q is not p and q.name == p.dependency]
    if mem.get("renamed") is not None:
        x = self.U.objs[mem.pop("renamed")] if mem["renamed"] < len(self.U.objs) else None
        mem.clear()
        if x is not None:
            return {"op": "validate", "x": self.ref(x)}
    if not live:
        secs = [s_ for s_ in self.secs() if len(s_.properties) >= 2]
        if not secs:
            t = self.pick(self.secs())
            if t is None or not self.room():
                return None
            name = next((n for n in FRESH if not any(p.name == n for p in t.properties)), None)
            if name is None:
                return None
            return {"op": "create_property", "t": self.ref(t), "name": name, "dtype": "string",
                    "values": "abc"}
        sec = self.pick(secs)
        p, q = sec.properties[0], sec.properties[-1]
        if self.chance(0.5):
            p, q = q, p
        return {"op": "set_attr", "x": self.ref(p), "attr": "dependency", "v": q.name}
    p, q = self.pick(live)
    top = self.U.top(p)
    scope = self.pick([top, p.parent])
    key = self.U.index(p)
    if mem.get("validated") != key:
        mem["validated"] = key
        return {"op": "validate", "x": self.ref(scope)}
    name = next((n for n in FRESH if not any(c.name == n for c in p.parent.properties)), None)
    if name is None:
        return None
    mem["renamed"] = self.U.index(scope)
    return {"op": "rename", "x": self.ref(q), "name": name}


Gen.g_dependency_scenario = g_dependency_scenario


def g_linked_copy(self):
    """Copies of Sections whose link is resolved, cleaned on either side later: one op per call,
    chosen by looking at the state (document -> target with a definition -> linker without ->
    link -> copy -> clean the copy -> clean the original)."""
    docs = self.U.of_kind("doc")
    if not docs:
        return self.g_new_doc()
    d = self.pick(docs)
    tops = list(d.sections)
    merged = [s_ for s_ in self.secs() if s_.link is not None and s_.is_merged]
    if merged and self.chance(0.75):
        r = self.rng.random()
        x = self.pick(merged)
        if r < 0.4:
            root = self.U.top(x)
            if not self.room(len(self.U.subtree(root))):
                return None
            if self.chance(0.3):
                # the linking Section alone, without its children (what export_leaf makes its
                # chain of): the copy is merged with nothing of the original either
                if self.chance(0.5):
                    return {"op": "clone", "x": self.ref(x), "children": False,
                            "keep_id": self.chance(0.3)}
                leaf = self.pick(list(x.sections) + list(x.properties)) or x
                return {"op": "export_leaf", "x": self.ref(leaf)}
            return {"op": "clone", "x": self.ref(root if self.chance(0.6) else x), "children": True,
                    "keep_id": self.chance(0.3)}
        return {"op": "clean", "x": self.cref(self.U.top(x) if self.chance(0.6) else x)}
    with_def = [s_ for s_ in tops if s_.definition and s_.link is None]
    plain = [s_ for s_ in tops if not s_.definition and s_.link is None and not len(s_.sections)]
    if not self.room(2):
        return None
    free = [n for n in FRESH if not any(s_.name == n for s_ in tops)]
    if not free:
        return None
    if not with_def:
        return {"op": "create_section", "t": self.cref(d), "name": free[0], "type": "t1",
                "definition": "a definition to inherit"}
    if not plain:
        return {"op": "create_section", "t": self.cref(d), "name": free[0], "type": "t1"}
    t = self.pick(with_def)
    if not len(t.properties) and self.chance(0.5):
        return {"op": "create_property", "t": self.ref(t), "name": self.pick(FRESH), "dtype": "int",
                "values": 1}
    return {"op": "set_link", "x": self.ref(self.pick(plain)), "path": t.get_path()}


Gen.g_linked_copy = g_linked_copy


def g_term_scenario(self):
    """Two documents whose Sections of one type inherit different terminologies that load, and an
    optional terminology rule run on one and then on the other: one op per call, chosen by looking
    at the state (document A with a typed Section -> saved as F1 -> document B saved empty as F2
    -> B gets a Section of the same type -> A.repository = F1, B.repository = F2 -> the rule on
    A's Section, on B's Section, and again)."""
    mem = self.__dict__.setdefault("_term", {})
    docs = self.U.of_kind("doc")
    if len(docs) < 2:
        return {"op": "new_doc"} if self.room() else None
    a, b = docs[0], docs[1]
    typed = lambda d: [s_ for s_ in d.sections if s_.type == "t1" and not s_.repository]
    free = lambda d: [n for n in FRESH if not any(s_.name == n for s_ in d.sections)]
    if not typed(a):
        if not self.room() or not free(a):
            return None
        return {"op": "create_section", "t": self.cref(a), "name": free(a)[0], "type": "t1"}
    if "f1" not in mem:
        mem["f1"] = len(self.U.files)
        return {"op": "save", "d": self.ref(a), "name": "term1", "backend": "xml"}
    if "f2" not in mem:
        if len(b.sections):
            return None
        mem["f2"] = len(self.U.files)
        return {"op": "save", "d": self.ref(b), "name": "term2", "backend": "xml"}
    if mem["f1"] >= len(self.U.files) or mem["f2"] >= len(self.U.files):
        return None         # a save was refused
    if not typed(b):
        if not self.room() or not free(b):
            return None
        return {"op": "create_section", "t": self.cref(b), "name": free(b)[0], "type": "t1"}
    for d, key in ((a, "f1"), (b, "f2")):
        if not d.repository:
            return {"op": "set_repository", "x": self.cref(d), "f": mem[key]}
    turn = mem["turn"] = mem.get("turn", 0) + 1
    d = (a, b, b, a)[turn % 4]
    return {"op": "validate_optional", "x": self.ref(self.pick(typed(d))),
            "rule": self.pick(["section_repository_present", "section_repository_present",
                               "property_terminology_check"])}


Gen.g_term_scenario = g_term_scenario
