"""Batch runner: seeded search over many simulated runs, shrinking, replay files,
known findings, evidence.  Exit codes: 0 held, 1 VIOLATION, 2 harness error."""
import concurrent.futures as cf
import copy
import faulthandler
import importlib
import json
import multiprocessing
import os
import signal
import subprocess
import sys
import time
import traceback

from . import boot, seeds, seams
from .known import Known, VERIF
from .shrink import shrink_case

RUN_TIMEOUT = 20
MAX_REPORTED = 6
TERMINATION_PROPS = {"C03": "tree.terminates", "C16": "read.returns", "C18": "load.terminates"}


class RunTimeout(BaseException):
    pass


def _alarm(signum, frame):
    raise RunTimeout("run exceeded %d s" % RUN_TIMEOUT)


def load_check(prop):
    return importlib.import_module("checks." + prop.lower())


def guarded(fn, *args, **kwargs):
    """Run one simulated run under the watchdog."""
    old = signal.signal(signal.SIGALRM, _alarm)
    signal.alarm(RUN_TIMEOUT)
    try:
        return fn(*args, **kwargs)
    finally:
        signal.alarm(0)
        signal.signal(signal.SIGALRM, old)


def merge_counts(dst, src):
    for key, val in src.items():
        if isinstance(val, dict):
            merge_counts(dst.setdefault(key, {}), val)
        elif isinstance(val, (int, float)):
            dst[key] = dst.get(key, 0) + val
        else:
            dst.setdefault(key, val)


def _work(prop, tier, base, indices, deadline, enum_cases=None):
    """Worker: a chunk of runs.  Returns aggregated, picklable results."""
    faulthandler.enable()
    mod = load_check(prop)
    known = Known(prop)
    out = {"runs": 0, "stats": {}, "keys": set(), "violations": [], "samples": [],
           "errors": [], "digests": {}, "timeouts": 0, "pid": os.getpid()}
    jobs = [("seed", i) for i in indices] if enum_cases is None else \
        [("case", c) for c in enum_cases]
    for kind, item in jobs:
        if time.time() > deadline:
            break
        try:
            if kind == "seed":
                rs = seeds.run_seed(base, prop, tier, item)
                res = guarded(mod.explore, rs, tier, known)
            else:
                res = guarded(mod.execute, item, known)
        except RunTimeout as exc:
            out["timeouts"] += 1
            case = None
            if prop in TERMINATION_PROPS:
                # the property promises termination: a run that does not return is a violation,
                # replayable from its case (which the check can name without running it)
                if kind == "case":
                    case = item
                elif hasattr(mod, "generate_case"):
                    try:
                        case = guarded(mod.generate_case, rs, tier)
                    except Exception:
                        case = None
                elif getattr(mod, "ENGINE", "") == "session":
                    from . import session as _session
                    cur = _session.CURRENT_CASE
                    if cur is not None and cur.get("run_seed") == rs:
                        case = copy.deepcopy(cur)     # the ops issued so far, the last one hangs
            if case is not None:
                sig = "%s|timeout|" % TERMINATION_PROPS[prop]
                out["violations"].append({"signature": sig, "case": case, "timeout": True,
                                          "violation": {"monitor": TERMINATION_PROPS[prop], "signature": sig,
                                                        "message": "the run did not return within %d s" % RUN_TIMEOUT,
                                                        "step": 0, "op": {"op": "run"}, "labels": [],
                                                        "outcome": ["hang"]}})
            else:
                out["errors"].append("timeout %s %r: %s" % (kind, item if kind == "seed" else "case", exc))
            continue
        except Exception:
            out["errors"].append("%s %r: %s" % (kind, item if kind == "seed" else
                                                json.dumps(item)[:200], traceback.format_exc()))
            continue
        out["runs"] += 1
        merge_counts(out["stats"], res.stats)
        out["keys"].update(mod.nontrivial_keys(res) if hasattr(mod, "nontrivial_keys")
                           else res.fault_shapes)
        if len(out["samples"]) < 2:
            out["samples"].append(sample_of(res))
        if kind == "seed" and len(out["digests"]) < 3:
            out["digests"][item] = res.digest
        if res.violation is not None:
            sig = res.violation["signature"]
            if sum(1 for v in out["violations"] if v["signature"] == sig) < 2:
                out["violations"].append({"signature": sig, "violation": res.violation,
                                          "case": res.case})
    return out


def sample_of(res):
    case = res.case
    out = {}
    for key in ("engine", "run_seed", "profile", "ops", "schedule", "faults", "scenario", "cell",
                "script", "tree", "tool", "plan"):
        if key in case:
            val = case[key]
            if isinstance(val, list) and len(val) > 12:
                val = val[:12] + ["... %d more" % (len(val) - 12)]
            out[key] = val
    return out


def chunks(total, size):
    i = 0
    while i < total:
        yield list(range(i, min(total, i + size)))
        i += size


def replay_file(path, known=None):
    with open(path) as fobj:
        case = json.load(fobj)
    mod = load_check(case["property"])
    res = guarded(mod.execute, case, known)
    return case, res


def fresh_replay(path, hashseed="0"):
    """Replay a file in a fresh interpreter; returns (signature or None, digest)."""
    env = dict(os.environ, PYTHONHASHSEED=hashseed)
    proc = subprocess.run([sys.executable, "-m", "simkit.cli", "replay", path, "--json"],
                          cwd=VERIF, env=env, capture_output=True, text=True, timeout=300)
    for line in proc.stdout.splitlines():
        if line.startswith("REPLAY-RESULT "):
            data = json.loads(line[len("REPLAY-RESULT "):])
            return data.get("signature"), data.get("digest")
    raise RuntimeError("fresh replay of %s produced no result: %s %s" %
                       (path, proc.stdout[-500:], proc.stderr[-500:]))


def write_replay(prop, case, violation, digest):
    # replays of runs against a scratch tree (mutants, seeded changes, older commits) are kept
    # apart from the ones that say something about /repo itself
    out_dir = os.path.join(VERIF, "replays", prop) if boot.REPO == "/repo" else \
        os.path.join(VERIF, ".scratch", "replays", prop)
    os.makedirs(out_dir, exist_ok=True)
    doc = copy.deepcopy(case)
    doc["violation"] = violation
    doc["monitor"] = violation["monitor"]
    doc["digest"] = digest
    doc["odml_tree"] = boot.tree_id()
    sig8 = "%08x" % (seeds.H(violation["signature"]) & 0xffffffff)
    path = os.path.join(out_dir, "%s-%s.json" % (case.get("run_seed", 0), sig8))
    with open(path, "w") as fobj:
        json.dump(doc, fobj, indent=1, sort_keys=True, default=repr)
    return path


def determinism_sample(prop, tier, base, digests):
    """Re-run the sampled seeds in a fresh interpreter under another hash seed."""
    if not digests:
        return {"seeds": 0, "equal": True}
    idx = sorted(digests)
    env = dict(os.environ, PYTHONHASHSEED="4242", VERIF_SEED=str(base))
    proc = subprocess.run([sys.executable, "-m", "simkit.cli", "digest", prop, "--tier", tier,
                           "--indices", ",".join(str(i) for i in idx)],
                          cwd=VERIF, env=env, capture_output=True, text=True, timeout=300)
    got = {}
    for line in proc.stdout.splitlines():
        if line.startswith("DIGEST "):
            _, i, dig = line.split()
            got[int(i)] = dig
    equal = all(got.get(i) == digests[i] for i in idx)
    return {"seeds": len(idx), "equal": equal, "indices": idx,
            "detail": None if equal else {"first": {str(i): digests[i] for i in idx},
                                          "second": {str(i): got.get(i) for i in idx},
                                          "stderr": proc.stderr[-400:]}}


def run_check(prop, tier="quick", base=0, jobs=None, budget=None, runs=None, out=sys.stdout):
    t0 = time.time()
    mod = load_check(prop)
    known = Known(prop)
    jobs = jobs or int(os.environ.get("VERIF_JOBS", "0")) or (os.cpu_count() or 4)
    n_runs, wall = mod.BUDGET[tier]
    if runs:
        n_runs = runs
    if budget:
        wall = budget
    deadline = t0 + wall
    harness_errors = []
    violations = []      # (signature, violation, case)
    known_lines = []

    def say(msg):
        out.write(msg + "\n")
        out.flush()

    say("simkit: property=%s tier=%s seed=%d jobs=%d runs<=%d wall<=%ds tree=%s" %
        (prop, tier, base, jobs, n_runs, wall, boot.tree_id()))

    # 1. regression replays: fixed findings must stay fixed, known ones are announced
    reg_dir = os.path.join(VERIF, "regressions", prop)
    known_replays = {os.path.normpath(os.path.join(VERIF, e["replay"])): e
                     for e in known.entries if e.get("replay")}
    n_reg = 0
    if os.path.isdir(reg_dir):
        for name in sorted(os.listdir(reg_dir)):
            if not name.endswith(".json"):
                continue
            path = os.path.normpath(os.path.join(reg_dir, name))
            n_reg += 1
            try:
                case, res = replay_file(path, known=None)
            except RunTimeout as exc:
                if prop in TERMINATION_PROPS:
                    sig = "%s|timeout|" % TERMINATION_PROPS[prop]
                    vio = {"monitor": TERMINATION_PROPS[prop], "signature": sig,
                           "message": "replaying %s did not return within %d s" % (name, RUN_TIMEOUT)}
                    violations.append((sig, vio, None, path))
                else:
                    harness_errors.append("regression %s: %s" % (name, exc))
                continue
            except Exception:
                harness_errors.append("regression %s: %s" % (name, traceback.format_exc()))
                continue
            ent = known_replays.get(path)
            if res.violation is None:
                continue
            sig = res.violation["signature"]
            if ent is not None and sig == ent["sig"]:
                known_lines.append("KNOWN-FINDING: property=%s %s [sig=%s]" %
                                   (prop, ent["text"], sig))
            else:
                violations.append((sig, res.violation, res.case, path))

    # 2. enumerated grid (fault_enumeration level), complete in both tiers
    agg = {"runs": 0, "stats": {}, "keys": set(), "samples": [], "digests": {}, "timeouts": 0}
    grid_size = 0
    found = []
    pids = set()
    ctx = multiprocessing.get_context("fork")
    with cf.ProcessPoolExecutor(max_workers=jobs, mp_context=ctx) as pool:
        futs = []
        if hasattr(mod, "grid"):
            cases = mod.grid(tier)
            grid_size = len(cases)
            per = max(1, (len(cases) + jobs * 4 - 1) // (jobs * 4))
            for i in range(0, len(cases), per):
                futs.append(pool.submit(_work, prop, tier, base, [], t0 + wall * 3,
                                        cases[i:i + per]))
        size = max(10, min(250, n_runs // (jobs * 6) or 10))
        for idx in chunks(n_runs, size):
            futs.append(pool.submit(_work, prop, tier, base, idx, deadline))
        for fut in cf.as_completed(futs):
            try:
                part = fut.result()
            except cf.CancelledError:
                continue
            except Exception:
                harness_errors.append("worker died: %s" % traceback.format_exc())
                continue
            pids.add(part["pid"])
            agg["runs"] += part["runs"]
            agg["timeouts"] += part["timeouts"]
            merge_counts(agg["stats"], part["stats"])
            agg["keys"].update(part["keys"])
            if len(agg["samples"]) < 3:
                agg["samples"].extend(part["samples"][:3 - len(agg["samples"])])
            for k, v in part["digests"].items():
                if len(agg["digests"]) < 3:
                    agg["digests"][k] = v
            found.extend(part["violations"])
            if part["violations"] and os.environ.get("VERIF_STOP_ON_FIRST"):
                # sensitivity self-test: one violation decides; do not start the remaining chunks
                for other in futs:
                    other.cancel()
            for err in part["errors"]:
                if err.startswith("timeout") and prop in TERMINATION_PROPS:
                    found.append({"signature": "%s|timeout|" % TERMINATION_PROPS[prop],
                                  "violation": {"monitor": TERMINATION_PROPS[prop],
                                                "message": err, "signature":
                                                "%s|timeout|" % TERMINATION_PROPS[prop]},
                                  "case": None})
                else:
                    harness_errors.append(err)
    seams.sweep_sandboxes(pids | {os.getpid()})

    # 3. violations: known / new; shrink, write replay, confirm in a fresh interpreter
    by_sig = {}
    for item in sorted(found, key=lambda v: (v["signature"], len(json.dumps(v["case"], default=repr)))):
        by_sig.setdefault(item["signature"], item)
    replay_paths = []
    unreported = 0
    for sig, item in sorted(by_sig.items()):
        if known.is_known(sig):
            continue
        if len(violations) >= int(os.environ.get("VERIF_MAX_REPORTED", MAX_REPORTED)):
            # one confirmed replay decides the exit code; minimising and re-confirming dozens of
            # signatures of one defect would only cost wall time
            unreported += 1
            continue
        if item["case"] is None:
            harness_errors.append("unreplayable: %s" % item["violation"]["message"])
            continue
        if item.get("timeout"):
            try:
                path = write_replay(prop, item["case"], item["violation"], "timeout")
                fsig, fdig = fresh_replay(path)
                if fsig != sig:
                    harness_errors.append("the run that did not return does so on replay: %s" % path)
                    continue
                violations.append((sig, item["violation"], item["case"], path))
            except Exception:
                harness_errors.append("confirming timeout %s: %s" % (sig, traceback.format_exc()))
            continue
        try:
            small = mod.shrink(item["case"], sig) if hasattr(mod, "shrink") else \
                shrink_case(item["case"], lambda c: guarded(mod.execute, c, None), sig)
            res = guarded(mod.execute, small, None)
            if res.violation is None or res.violation["signature"] != sig:
                small = item["case"]
                res = guarded(mod.execute, small, None)
            if res.violation is None:
                harness_errors.append("violation %s did not reproduce in-process" % sig)
                continue
            path = write_replay(prop, res.case, res.violation, res.digest)
            fsig, fdig = fresh_replay(path)
            if fsig != res.violation["signature"] or fdig != res.digest:
                harness_errors.append("fresh replay of %s differs: %s/%s vs %s/%s" % (
                    path, fsig, fdig, res.violation["signature"], res.digest))
                continue
            violations.append((res.violation["signature"], res.violation, res.case, path))
        except Exception:
            harness_errors.append("shrinking %s: %s" % (sig, traceback.format_exc()))

    # 4. determinism sample (fresh interpreter, other hash seed)
    det = {"seeds": 0, "equal": True}
    try:
        det = determinism_sample(prop, tier, base, agg["digests"])
        if not det["equal"]:
            harness_errors.append("determinism sample differs: %s" % json.dumps(det["detail"]))
    except Exception:
        harness_errors.append("determinism sample: %s" % traceback.format_exc())

    wall_s = time.time() - t0
    n_eval = agg["runs"] + n_reg
    if n_eval == 0:
        harness_errors.append("nothing was explored")
    # 5. evidence
    evidence = {
        "property_id": prop, "tier": tier, "seed": int(base), "level": mod.LEVEL,
        "wall_s": round(wall_s, 2), "violations": len(violations),
        "coverage": {
            "evaluations": n_eval,
            "distinct_nontrivial": len(agg["keys"]),
            "rule": mod.RULE,
            "samples": agg["samples"] or [{"note": "no run completed"}],
            "runs_per_hour": int(agg["runs"] / max(wall_s, 1e-6) * 3600),
            "steps": agg["stats"].get("steps", 0),
            "simulated_time_s": agg["stats"].get("sim_time_s", 0),
            "fault_kinds": dict(sorted(agg["stats"].get("labels", {}).items())),
            "refusals": dict(sorted(agg["stats"].get("refusals", {}).items())),
            "op_counts": dict(sorted(agg["stats"].get("ops", {}).items())),
            "probes": dict(sorted(agg["stats"].get("probes", {}).items())),
            "extra_counts": {k: v for k, v in sorted(agg["stats"].items())
                             if k not in ("labels", "refusals", "ops", "probes")},
            "quarantined": agg["stats"].get("quarantined", 0),
            "regression_replays": n_reg,
            "known_findings_announced": len(known_lines),
            "grid_size": grid_size,
            "exhaustive": bool(grid_size) and agg["timeouts"] == 0,
            "timeouts": agg["timeouts"],
            "components": getattr(mod, "COMPONENTS", {}),
            "determinism_sample": {k: det[k] for k in ("seeds", "equal")},
            "engine": mod.ENGINE,
            "odml_tree": boot.tree_id(),
            "harness_errors": len(harness_errors),
        },
        "assumptions": getattr(mod, "ASSUMPTIONS", []),
    }
    if not grid_size:
        evidence["coverage"].pop("exhaustive")
    ev_ok = True
    try:
        # evidence is what the check saw of /repo itself; runs against a scratch tree
        # (mutant self-test, older commits) must not overwrite it
        ev_dir = os.path.join(VERIF, "evidence") if boot.REPO == "/repo" else \
            os.path.join(VERIF, ".scratch", "evidence")
        os.makedirs(ev_dir, exist_ok=True)
        tmp = os.path.join(ev_dir, ".%s.json.tmp" % prop)
        with open(tmp, "w") as fobj:
            json.dump(evidence, fobj, indent=1, sort_keys=True, default=repr)
        os.replace(tmp, os.path.join(ev_dir, "%s.json" % prop))
    except Exception:
        ev_ok = False
        harness_errors.append("evidence could not be written: %s" % traceback.format_exc())

    for line in known_lines:
        say(line)
    say("simkit: %d runs (%d regression replays, grid %d), %d steps, %d distinct non-trivial, "
        "%.1fs, %d runs/h" % (agg["runs"], n_reg, grid_size, agg["stats"].get("steps", 0),
                              len(agg["keys"]), wall_s, evidence["coverage"]["runs_per_hour"]))
    obs = agg["stats"].get("extended_observations") or {}
    if obs:
        # THREADS, extended mode (finer than the quantifier's granularity): recorded, not an alarm
        say("simkit: observations of the extended mode (not alarms): %s" %
            ", ".join("%s x%d" % (k, v) for k, v in sorted(obs.items())))
    for err in harness_errors[:10]:
        say("HARNESS-ERROR: %s" % err.strip().replace("\n", "\n    "))
    if unreported:
        say("simkit: %d further violation signatures not minimised (cap %d)" % (unreported, MAX_REPORTED))
    for sig, vio, case, path in violations:
        say("violation: %s :: %s" % (sig, vio["message"]))
        say("VIOLATION property=%s replay=%s" % (prop, path))
    if violations:
        return 1
    if harness_errors or not ev_ok:
        return 2
    say("OK property=%s" % prop)
    return 0
